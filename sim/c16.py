"""C16 — results do not depend on what other threads are doing.

One run = T simulated caller threads issuing public API calls into the one
shared library state of a cold node, interleaved by a seeded plan at LINE (or
INSTRUCTION) granularity.  Oracle: every call's value equals the value of the
same call alone, cold, single-threaded; no interleaving-induced exception; the
run returns within the step budget; after quiescence the same calls, re-issued
sequentially in the same node, still give the oracle value.
"""
import random

from . import canon
from .workload import Gen, mk, call_repr, wchoice, call_key

RW_P = [1 / 2, 1 / 8, 1 / 32, 1 / 128, 1 / 512, 1 / 2048]
RR_Q = [1, 2, 3, 5, 8, 13, 21, 34, 55, 89, 144, 233, 377, 610, 987]


def _usable_call(g, ctx, mix, base, tries=6):
    for _ in range(tries):
        c = g.call(mix, base)
        if ctx.usable(c) and ctx.oracle(c)['steps'] <= 400_000:
            return c
    return mk('get_res0_cells')


def gen_spec(ctx, rng, tier, force=None):
    """Draw one run: configuration (swarm), workload, plan."""
    force = force or {}
    g = Gen(rng, ctx)
    T = force.get('T') or rng.choice([2, 2, 2, 3, 3, 4])
    locality = force.get('locality') or wchoice(rng, {'identical': 12, 'near': 38, 'face': 15, 'far': 35})
    mix = force.get('mix') or wchoice(rng, {'forward': 15, 'inverse': 15, 'boundary': 15, 'geo': 35, 'all': 20})
    temp = force.get('temp') or wchoice(rng, {'cold': 45, 'warm': 30, 'hot': 25})
    gran = force.get('gran') or ('instr' if (tier == 'thorough' and rng.random() < 0.1) else 'line')
    counts = [rng.randint(1, 3) for _ in range(T)]
    while sum(counts) > 9:
        counts[counts.index(max(counts))] -= 1
    if 'counts' in force:
        counts = force['counts']
    threads = []
    if locality == 'identical':
        base = g.base()
        one = [_usable_call(g, ctx, mix, base) for _ in range(counts[0])]
        threads = [[dict(c) for c in one] for _ in range(T)]
    elif locality == 'near':
        base = g.base()
        threads = [[_usable_call(g, ctx, mix, base) for _ in range(n)] for n in counts]
    elif locality == 'face':
        p0, r0 = g.base()
        for n in counts:
            b = (g._offset(p0, rng.uniform(0.0, 25.0)), g.res(0, 24))
            threads.append([_usable_call(g, ctx, mix, b) for _ in range(n)])
    else:
        for n in counts:
            b = g.base()
            threads.append([_usable_call(g, ctx, mix, b) for _ in range(n)])
    warm = []
    if temp == 'warm':
        for _ in range(rng.randint(1, 8)):
            warm.append(_usable_call(g, ctx, 'geo', g.base() if rng.random() < 0.5 else None))
    elif temp == 'hot':
        warm = [dict(c) for tc in threads for c in tc]
    solo = [[ctx.oracle(c)['steps'] for c in tc] for tc in threads]
    est = sum(sum(s) for s in solo)
    budget = 20 * est + 100_000
    plan_kind = force.get('plan') or wchoice(rng, {'rw': 33, 'pct': 14, 'one': 38, 'rr': 15})
    if plan_kind == 'rw':
        plan = {'plan': 'rw', 'p': rng.choice(RW_P)}
    elif plan_kind == 'pct':
        plan = {'plan': 'pct', 'd': rng.choice([1, 2, 3])}
    elif plan_kind == 'rr':
        plan = {'plan': 'rr', 'q': rng.choice(RR_Q), 'phase': rng.randrange(1000), 'first': rng.randrange(T)}
    else:
        a = rng.randrange(T)
        total = max(1, sum(solo[a]))
        k = rng.randrange(total)
        by_loc = False
        if rng.random() < 0.5:
            # choose the preemption point uniformly over distinct source lines of A's
            # solo trace (then a random occurrence), so rare lines get equal weight
            off = 0
            locs = {}
            for c, n in zip(threads[a], solo[a]):
                tr = ctx.oracle(c, want_trace=True)['trace'] or []
                for j, l in enumerate(tr):
                    locs.setdefault(l, []).append(off + j)
                off += n
            if locs:
                l = rng.choice(sorted(locs))
                k = rng.choice(locs[l])
                by_loc = True
        order = [x for x in range(T) if x != a]
        rng.shuffle(order)
        plan = {'plan': 'one', 'a': a, 'k': k, 'order': order, 'by_loc': by_loc}
    if gran == 'instr' and plan['plan'] == 'one':
        plan['k'] = plan['k'] * 7 + rng.randrange(7)
    if gran == 'instr':
        budget *= 10
        est *= 7
    return {
        'threads': threads, 'warm': warm, 'plan': plan, 'seed': rng.getrandbits(48),
        'budget': budget, 'est_len': est, 'gran': gran, 'post': True,
        'conf': {'T': T, 'locality': locality, 'mix': mix, 'temp': temp, 'counts': counts},
    }


def expected(ctx, spec):
    return [[ctx.oracle(c) for c in tc] for tc in spec['threads']]


def _explainable(ctx, spec, res, limit=1700):
    """Is there a sequential order of the run's calls (respecting each thread's
    program order, after the same warm-up) whose single-threaded execution
    yields exactly the observed values?  Linearizability with the library
    itself as the sequential specification."""
    counts = [len(tc) for tc in spec['threads']]
    observed = [[r[0] for r in row] for row in res['results']]
    tried = [0]

    def orders(prefix, left):
        if tried[0] >= limit:
            return
        if not any(left):
            yield list(prefix)
            return
        for t in range(len(left)):
            if left[t]:
                left[t] -= 1
                prefix.append(t)
                yield from orders(prefix, left)
                prefix.pop()
                left[t] += 1

    for order in orders([], list(counts)):
        tried[0] += 1
        if tried[0] > limit:
            break
        s = {'threads': spec['threads'], 'warm': spec['warm'], 'order': order}
        r = ctx.run_seq(s)
        got = [[x[0] for x in row] for row in r['results']]
        if got == observed and (res['post'] is None or r['post'] == res['post']):
            return order
    return None


def judge(ctx, spec, res, explain=True):
    """Returns None if the property held on this run, else a violation dict."""
    if res['aborted']:
        if res['aborted'].startswith('harness'):
            raise RuntimeError(res['aborted'])
        return {'kind': 'no-return' if res['aborted'] == 'budget' else 'deadlock',
                'detail': 'run stopped: %s after %d steps (budget %d)' % (res['aborted'], res['steps'], spec['budget'])}
    exp = expected(ctx, spec)
    v = None
    for t, tc in enumerate(spec['threads']):
        for i, c in enumerate(tc):
            e = exp[t][i]
            got, kept = res['results'][t][i]
            if got != e['outcome']:
                if e['outcome'][0] == 'ok' and got[0] == 'exc':
                    kind = 'raised'
                elif e['outcome'][0] == 'exc' and got[0] == 'exc':
                    kind = 'exception-differs'
                else:
                    kind = 'wrong-value'
                v = {'kind': kind, 'thread': t, 'call': i, 'f': c['f'], 'call_repr': call_repr(c),
                     'expected': e['outcome'], 'observed': got}
                break
            if e['args_kept'] and not kept:
                v = {'kind': 'argument-modified', 'thread': t, 'call': i, 'f': c['f'], 'call_repr': call_repr(c),
                     'expected': e['outcome'], 'observed': got}
                break
        if v:
            break
    if v is None and res['post'] is not None:
        for t, tc in enumerate(spec['threads']):
            for i, c in enumerate(tc):
                if res['post'][t][i] != exp[t][i]['outcome']:
                    v = {'kind': 'poisoned-after-quiescence', 'thread': t, 'call': i, 'f': c['f'],
                         'call_repr': call_repr(c), 'expected': exp[t][i]['outcome'], 'observed': res['post'][t][i]}
                    break
            if v:
                break
    if v is None:
        return None
    v['detail'] = '%s: %s: %s' % (v['kind'], call_repr(spec['threads'][v['thread']][v['call']], 90), canon.diff_text(v['expected'], v['observed']))
    if explain:
        order = _explainable(ctx, spec, res)
        if order is not None:
            v['sequentially_explainable'] = order
            v['kind'] = 'history-dependence'
    return v


def nontrivial(res):
    """>= 1 preemption while >= 2 threads were inside a5 calls."""
    return res['overlap_switches'] >= 1


def run_one(ctx, run_seed, tier, force=None):
    rng = random.Random(run_seed)
    spec = gen_spec(ctx, rng, tier, force)
    res = ctx.run_threads(spec)
    v = judge(ctx, spec, res)
    if v is not None and v.get('kind') == 'history-dependence':
        # not C16's to report: the same values arise without any interleaving (C17 territory)
        hd, v = v, None
    else:
        hd = None
    summ = {
        'seed': run_seed, 'digest': res['digest'], 'steps': res['steps'], 'nswitch': res['nswitch'],
        'overlap': res['overlap_switches'], 'plan': spec['plan']['plan'], 'gran': spec['gran'],
        'conf': spec['conf'], 'pairs': res['switch_pairs'], 'ncalls': sum(len(t) for t in spec['threads']),
        'funcs': sorted({c['f'] for tc in spec['threads'] for c in tc}),
        'fired': (res['nswitch'] > len(spec['threads']) - 1) if spec['plan']['plan'] == 'one' else None,
        'history_dependence': hd is not None,
        'raised_ok': sum(1 for tc in res['results'] for r in tc if r[0][0] == 'exc'),
    }
    return summ, spec, res, v


def sample_of(spec, res):
    return {
        'threads': [[call_repr(c, 60) for c in tc] for tc in spec['threads']],
        'warm': [call_repr(c, 60) for c in spec['warm']][:4] + (['...'] if len(spec['warm']) > 4 else []),
        'plan': {k: v for k, v in spec['plan'].items()}, 'gran': spec['gran'],
        'segments': res['segments'][:24] + ([['...', len(res['segments'])]] if len(res['segments']) > 24 else []),
        'steps': res['steps'], 'switches': res['nswitch'],
    }
