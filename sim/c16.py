"""C16 — results do not depend on what other threads are doing.

One run = T simulated caller threads issuing public API calls into the one
shared library state of a cold node, interleaved by a seeded plan at LINE (or
INSTRUCTION) granularity.  Oracle: every call's value equals the value of the
same call alone, cold, single-threaded; no interleaving-induced exception; the
run returns within the step budget; after quiescence the same calls, re-issued
sequentially in the same node, still give the oracle value.
"""
import random

from . import canon
from .workload import Gen, mk, call_repr, wchoice, call_key, res_of

RW_P = [1 / 2, 1 / 8, 1 / 32, 1 / 128, 1 / 512, 1 / 2048]
RR_Q = [1, 2, 3, 5, 8, 13, 21, 34, 55, 89, 144, 233, 377, 610, 987]


def _usable_call(g, ctx, mix, base, tries=6):
    for _ in range(tries):
        c = g.call(mix, base)
        if ctx.usable(c) and ctx.oracle(c)['steps'] <= 400_000:
            return c
    return mk('get_res0_cells')


def _same_cell_anchor(g, p_coarse=0.1):
    p, res = g.base()
    x = g.rng.random()
    if x < p_coarse:
        res = g.rng.choice([0, 0, 1])         # the special, non-Hilbert levels (shared face / quintant shapes)
    elif x < 0.8:
        res = max(2, min(res, 20))
    return {'p': p, 'res': res, 'cell': g.cell_at(p, res)}


def _same_cell_call(g, ctx, sc):
    """One of the geometry functions, about one and the same cell."""
    r = g.rng
    x = r.randrange(5)
    if x == 0:
        return mk('lonlat_to_cell', sc['p'], sc['res'])
    if x == 1:
        return mk('cell_to_lonlat', sc['cell'])
    if x == 2:
        return mk('cell_to_boundary', sc['cell'], {'segments': r.choice([1, 1, 2, 3, 5])})
    if x == 3:
        return mk('cell_to_boundary', sc['cell'], *g.boundary_options())
    c = ctx.value(mk('cell_to_lonlat', sc['cell']))
    if isinstance(c, tuple) and len(c) == 2:
        return mk('lonlat_to_cell', c, sc['res'])
    return mk('lonlat_to_cell', sc['p'], sc['res'])


def related_call(g, ctx, c):
    """A call related to c by its arguments (neighbouring resolution, parent cell, the sibling function):
    issued only after quiescence, to see state that the run's own calls do not read again."""
    r = g.rng
    try:
        a = [canon.dec(x) for x in c['a']]
        f = c['f']
        if f == 'lonlat_to_cell' and isinstance(a[1], int):
            return mk(f, a[0], max(0, min(29, a[1] + r.choice([-1, 1]))))
        if f in ('get_num_cells', 'cell_area') and isinstance(a[0], int):
            return mk(r.choice(['get_num_cells', 'cell_area']), a[0] + r.choice([-1, 1, 1, 2]))
        if f in ('cell_to_lonlat', 'cell_to_boundary', 'get_resolution', 'u64_to_hex', 'cell_to_parent', 'cell_to_children') \
                and isinstance(a[0], int):
            par = ctx.value(mk('cell_to_parent', a[0]))
            tgt = par if (isinstance(par, int) and par and r.random() < 0.6) else a[0]
            return mk(r.choice(['cell_to_lonlat', 'cell_to_boundary', 'get_resolution', 'cell_to_children']), tgt)
        if f == 'uncompact' and isinstance(a[0], (list, tuple)) and isinstance(a[1], int):
            return mk(f, list(a[0])[:6], min(30, a[1] + 1))
        if f == 'compact' and isinstance(a[0], (list, tuple)):
            return mk(f, list(a[0])[:max(1, len(a[0]) // 2)])
        if f == 'hex_to_u64' and isinstance(a[0], str):
            return mk(f, a[0].upper() if a[0] != a[0].upper() else a[0].lower())
    except Exception:
        pass
    return None


def make_probes(g, ctx, threads, n=3):
    calls = [c for tc in threads for c in tc]
    g.rng.shuffle(calls)
    out = []
    for c in calls:
        p = related_call(g, ctx, c)
        if p is not None and ctx.usable(p) and ctx.oracle(p)['steps'] <= 100_000:
            out.append(p)
        if len(out) >= n:
            break
    return out


TINY_FAMILIES = {'counting': ['get_num_cells', 'cell_area'],
                 'hex': ['u64_to_hex', 'hex_to_u64'],
                 'hierarchy': ['get_resolution', 'cell_to_parent', 'cell_to_children', 'uncompact', 'compact', 'get_res0_cells']}


def tiny_pair_functions(rng):
    """Two small functions, usually of one family (they are the ones likely to share a table or memo)."""
    fam = wchoice(rng, {'counting': 35, 'hex': 15, 'hierarchy': 50})
    fa = rng.choice(TINY_FAMILIES[fam])
    if rng.random() < 0.7:
        fb = rng.choice(TINY_FAMILIES[fam])
    else:
        fb = rng.choice(TINY_FAMILIES[wchoice(rng, {'counting': 35, 'hex': 15, 'hierarchy': 50})])
    return fa, fb


def tiny_call(g, f, res, cell):
    r = g.rng
    if f in ('get_num_cells', 'cell_area'):
        return mk(f, res)
    if f in ('get_resolution', 'u64_to_hex'):
        return mk(f, cell)
    if f == 'hex_to_u64':
        return mk(f, '%x' % cell)
    if f == 'cell_to_parent':
        return mk(f, cell) if r.random() < 0.5 else mk(f, cell, max(0, res - r.randint(1, 3)))
    if f == 'cell_to_children':
        return mk(f, cell)
    if f == 'uncompact':
        return mk(f, [cell], min(29, res + r.randint(0, 2)))
    if f == 'compact':
        ch = g.ctx.value(mk('cell_to_children', cell)) or [cell]
        return mk(f, list(ch))
    return mk('get_res0_cells')


SWEEP_KINDS = ['samecell-cold', 'samecell-other', 'repeat-recent', 'identical-cold', 'sameface-cold',
               'far-cold', 'samecell-hot', 'edge-cold', 'samecell-cold@instr', 'repeat-recent@instr',
               'coarse-cold', 'coarse-other', 'hier-other', 'capacity-256', 'capacity-1024',
               'hier-other@instr', 'coarse-cold@instr', 'tiny@instr', 'tiny@instr', 'tiny@instr', 'tiny@instr',
               'tiny@instr', 'tiny@instr', 'tiny@instr', 'tiny@instr', 'diffparam-cold', 'diffparam-cold', 'diffparam-cold',
               # thorough tier only (the quick tier runs the first 28 kinds):
               'capacity-4096', 'capacity-65536', 'capacity-16384', 'capacity-512', 'capacity-2048', 'capacity-1000']


def gen_sweep(ctx, rng, kind):
    """An adversarially chosen pair (A, B) with a warm-up, for an exhaustive
    context-bound-2 sweep over A's preemption points."""
    g = Gen(rng, ctx)
    gran = 'line'
    if kind.endswith('@instr'):
        kind, gran = kind[:-6], 'instr'
    cheap = {'segments': 1}
    sc = _same_cell_anchor(g)
    if kind.startswith('edge'):
        p = g.point('edge')
        res = rng.randint(2, 9)
        sc = {'p': p, 'res': res, 'cell': g.cell_at(p, res)}

    def geo(sc_, which):
        if which == 0:
            return mk('cell_to_boundary', sc_['cell'], cheap)
        if which == 1:
            return mk('cell_to_lonlat', sc_['cell'])
        return mk('lonlat_to_cell', sc_['p'], sc_['res'])

    wa, wb = rng.randrange(3), rng.randrange(3)
    warm = []
    bulk = None
    if kind.startswith('diffparam'):
        # the same function about the same (or a like) cell, the two calls differing only in a parameter: options
        # of cell_to_boundary, target resolutions of children / parent / uncompact, resolution of lonlat_to_cell --
        # the pairs that meet in per-object or per-cell memos whose key leaves the parameter out
        sc = _same_cell_anchor(g, p_coarse=0.4)
        sc2 = sc
        if rng.random() < 0.4:
            p2 = g.point()
            sc2 = {'p': p2, 'res': sc['res'], 'cell': g.cell_at(p2, sc['res'])}     # another cell of the same level
        f = wchoice(rng, {'cell_to_boundary': 40, 'cell_to_children': 15, 'cell_to_parent': 10, 'uncompact': 15, 'lonlat_to_cell': 20})
        def dp(sc_, which):
            res_ = max(0, sc_['res'])
            if f == 'cell_to_boundary':
                return mk(f, sc_['cell'], [{'segments': 2}, {'segments': 5}, {}, {'closed_ring': False, 'segments': 3},
                                           {'segments': 'auto'}, {'segments': 8, 'closed_ring': True}][which])
            if f == 'cell_to_children':
                return mk(f, sc_['cell'], min(29, res_ + 1 + which % 3))
            if f == 'cell_to_parent':
                return mk(f, sc_['cell'], max(-1, res_ - 1 - which % 3))
            if f == 'uncompact':
                return mk(f, [sc_['cell']], min(29, res_ + which % 3))
            return mk(f, sc_['p'], max(0, min(29, res_ + which % 4)))
        ia = rng.randrange(6)
        ib = (ia + rng.randint(1, 5)) % 6
        A, B = dp(sc, ia), dp(sc2, ib)
        if rng.random() < 0.3:
            warm = [dp(sc, (ia + 3) % 6)]
        kind = 'diffparam'
    elif kind == 'tiny':
        # two very small calls of the counting / hierarchy / hex functions with related arguments (same or
        # neighbouring resolution, same cell), cold: small enough for every bytecode boundary of A to be tried
        res = rng.randint(2, 28)
        cell = sc['cell'] if res_of(sc['cell']) == res else g.synth_cell()
        res = max(0, res_of(cell))
        fa, fb = tiny_pair_functions(rng)
        A = tiny_call(g, fa, res + rng.choice([0, 1, 1]), cell)
        B = tiny_call(g, fb, res, cell)
    elif kind.startswith('capacity-'):
        # the pair starts 1-3 inserts short of a round capacity: the exhaustive sweep then finds any window in
        # which B's insert evicts/resets what A still relies on
        cap = int(kind.split('-')[1])
        kind = 'capacity'
        A = geo(sc, rng.choice([0, 1, 1]))
        B = geo(_same_cell_anchor(g), rng.choice([0, 1, 1]))
        bulk = {'kind': 'cell_to_lonlat', 'n': max(1, cap - 1 - rng.choice([0, 0, 1, 2])), 'seed': rng.getrandbits(32)}
    elif kind in ('coarse-cold', 'coarse-other', 'hier-other'):
        mixk = 'coarse' if kind.startswith('coarse') else 'hier'
        fa = wchoice(rng, {'cell_to_children': 4, 'uncompact': 3, 'get_res0_cells': 1, 'compact': 1})
        fb = wchoice(rng, {'cell_to_children': 4, 'uncompact': 3, 'get_res0_cells': 1, 'compact': 1, 'cell_to_parent': 1})
        def small(mk_call):
            # instruction-level sweeps need calls of modest size (every bytecode is an event)
            c = mk_call()
            for _ in range(10):
                if gran != 'instr' or (ctx.usable(c) and ctx.oracle(c)['steps'] <= 2500):
                    break
                c = mk_call()
            return c
        A = small(lambda: _usable_call(g, ctx, mixk, g.base()) if mixk == 'hier' else g.coarse_call(fa))
        B = small(lambda: _usable_call(g, ctx, mixk, g.base()) if mixk == 'hier' else g.coarse_call(fb))
        if kind.endswith('other'):
            warm = [g.coarse_call(fa) if mixk == 'coarse' else _usable_call(g, ctx, mixk, g.base())]
    elif kind in ('samecell-cold', 'samecell-other', 'samecell-hot', 'edge-cold'):
        A, B = geo(sc, wa), geo(sc, wb if wb != wa else (wa + 1) % 3)
        if kind == 'samecell-other':
            warm = [geo(_same_cell_anchor(g), rng.randrange(3))]
        elif kind == 'samecell-hot':
            warm = [A, B]
    elif kind == 'repeat-recent':
        A = geo(sc, wa)
        B = geo(_same_cell_anchor(g), wb)
        warm = [A]
    elif kind == 'identical-cold':
        A = geo(sc, wa)
        B = dict(A)
    elif kind == 'sameface-cold':
        A = geo(sc, wa)
        p2 = g._offset(sc['p'], rng.uniform(3.0, 25.0))
        r2 = rng.randint(2, 12)
        B = geo({'p': p2, 'res': r2, 'cell': g.cell_at(p2, r2)}, wb)
    else:
        A = geo(sc, wa)
        B = geo(_same_cell_anchor(g), wb)
    threads = [[A], [B]]
    solo = [[ctx.oracle(c, gran=gran)['steps'] for c in tc] for tc in threads]
    est = sum(sum(x) for x in solo)
    extra = {'bulk': bulk} if bulk else {}
    pr = make_probes(g, ctx, threads, 2)
    if pr:
        extra['probes'] = pr
    return {'threads': threads, 'warm': warm, 'plan': {'plan': 'one', 'a': 0, 'k': 0, 'order': [1]}, 'seed': 0, **extra,
            'budget': 20 * est + 100_000 * (1 if gran == 'line' else 8), 'est_len': est, 'gran': gran, 'post': True,
            'conf': {'T': 2, 'locality': kind, 'mix': 'geo', 'temp': kind.split('-')[-1], 'counts': [1, 1]}}


def matrix_pair(m, master):
    """The m-th ordered pair of public functions of this run: every A once per 13 sweeps, B rotating with
    VERIF_SEED and with the round, so that 13 seeds of the quick tier (or one thorough run of 169) cover all 169."""
    from .workload import PUBLIC
    n = len(PUBLIC)
    return PUBLIC[m % n], PUBLIC[(m + master + m // n) % n]


def matrix_call(g, ctx, f, anc):
    """Public function f applied to the anchor (point, resolution, the cell containing the point)."""
    r = g.rng
    cell, res = anc['cell'], anc['res']
    if f == 'lonlat_to_cell':
        return mk(f, anc['p'], res)
    if f == 'cell_to_lonlat':
        return mk(f, cell)
    if f == 'cell_to_boundary':
        return mk(f, cell, *r.choice([({'segments': 1},), (), ({'closed_ring': False},), ({'segments': 2},), ({'segments': 3},)]))
    if f == 'cell_to_parent':
        return mk(f, cell) if r.random() < 0.5 else mk(f, cell, max(0, res - r.randint(1, 2)))
    if f == 'cell_to_children':
        return mk(f, cell) if r.random() < 0.5 else mk(f, cell, min(29, res + 2))
    if f in ('get_resolution', 'u64_to_hex'):
        return mk(f, cell)
    if f == 'hex_to_u64':
        return mk(f, '%x' % cell)
    if f == 'get_res0_cells':
        return mk(f)
    if f in ('get_num_cells', 'cell_area'):
        return mk(f, res)
    if f == 'compact':
        ch = ctx.value(mk('cell_to_children', cell, min(29, res + r.choice([1, 1, 2])))) or [cell]
        ch = list(ch)
        if r.random() < 0.3 and len(ch) > 1:
            del ch[r.randrange(len(ch))]
        r.shuffle(ch)
        return mk(f, ch)
    if f == 'uncompact':
        return mk(f, [cell], min(29, res + r.choice([1, 2])))
    raise ValueError(f)


def gen_matrix_sweep(ctx, rng, fa, fb, tier):
    """Systematic half of C16's quantifier over *functions*: the ordered pair (fa, fb) of public functions, on
    related arguments (the same cell, a sibling, or another cell), cold / on state left by other cells / hot;
    every line boundary of A (every bytecode boundary when A is short) with B run to completion in the gap."""
    g = Gen(rng, ctx)
    anc = _same_cell_anchor(g, p_coarse=0.2)
    rel = wchoice(rng, {'same': 35, 'sibling': 25, 'other': 40})
    anc_b = anc
    if rel == 'sibling':
        par = ctx.value(mk('cell_to_parent', anc['cell']))
        sibs = ctx.value(mk('cell_to_children', par)) if isinstance(par, int) and par else None
        sibs = [c for c in (sibs or []) if c != anc['cell']]
        if sibs:
            c = rng.choice(sibs)
            ctr = ctx.value(mk('cell_to_lonlat', c))
            anc_b = {'p': ctr if isinstance(ctr, tuple) else anc['p'], 'res': anc['res'], 'cell': c}
    elif rel == 'other':
        anc_b = _same_cell_anchor(g, p_coarse=0.5 if anc['res'] < 2 else 0.1)
    A = matrix_call(g, ctx, fa, anc)
    B = matrix_call(g, ctx, fb, anc_b)
    if not (ctx.usable(A) and ctx.usable(B)):
        return None
    temp = wchoice(rng, {'cold': 60, 'other': 25, 'hot': 15})
    warm = []
    if temp == 'other':
        o = _same_cell_anchor(g)
        warm = [c for c in (matrix_call(g, ctx, fa, o), matrix_call(g, ctx, fb, o)) if ctx.usable(c)][:rng.randint(1, 2)]
    elif temp == 'hot':
        warm = [dict(A), dict(B)]
    gran = 'instr' if ctx.oracle(A, gran='instr')['steps'] + 1 <= (1200 if tier == 'quick' else 6000) else 'line'
    threads = [[A], [B]]
    est = sum(ctx.oracle(c, gran=gran)['steps'] for tc in threads for c in tc)
    extra = {}
    pr = make_probes(g, ctx, threads, 2)
    if pr:
        extra['probes'] = pr
    return {'threads': threads, 'warm': warm, 'plan': {'plan': 'one', 'a': 0, 'k': 0, 'order': [1]}, 'seed': 0, **extra,
            'budget': 20 * est + 100_000 * (1 if gran == 'line' else 8), 'est_len': est, 'gran': gran, 'post': True,
            'conf': {'T': 2, 'locality': 'matrix-' + rel, 'mix': 'all', 'temp': temp, 'counts': [1, 1]}}


def _accessors(path):
    """'mod:glob.attr[3]{key}.x' -> ['mod:glob', '.attr', '[3]', '{key}', '.x']"""
    out, cur, depth = [], '', 0
    head = True
    for ch in path:
        if head:
            if ch in '.[{#' and ':' in cur:
                out.append(cur)
                cur, head = ch, False
                depth = 1 if ch == '{' else 0
            else:
                cur += ch
            continue
        if depth:
            cur += ch
            if ch == '}':
                depth = 0
            continue
        if ch in '.[{#':
            out.append(cur)
            cur = ch
            depth = 1 if ch == '{' else 0
        else:
            cur += ch
    out.append(cur)
    return out


def _slots(writes, max_depth=5):
    """{prefix of 1..max_depth accessors: content hash of everything this call wrote under it}"""
    import hashlib
    groups = {}
    for path, v in writes.items():
        acc = _accessors(path)
        for d in range(1, min(max_depth, len(acc)) + 1):
            groups.setdefault((d, ''.join(acc[:d + 1]) if d < len(acc) else path), []).append((path, v))
    return {k: hashlib.blake2b(repr(sorted(v)).encode(), digest_size=6).hexdigest() for k, v in groups.items()}


def conflict_pool(ctx, rng, n=160):
    """A diverse pool of small calls (all public functions; coarse and ordinary cells; same-cell groups; the same
    function with different parameters) with the state paths each one leaves changed when run alone and cold.
    Built once per check run, before the worker pool forks."""
    g = Gen(rng, ctx)
    calls = []
    ancs = [_same_cell_anchor(g, p_coarse=1.0), _same_cell_anchor(g, p_coarse=1.0), _same_cell_anchor(g, p_coarse=0.0),
            _same_cell_anchor(g, p_coarse=0.0)]
    for anc in ancs:
        for _ in range(8):
            calls.append(_same_cell_call(g, ctx, anc))
    for anc in ancs[1:3]:
        for o in ({'segments': 2}, {'segments': 5}, {}, {'closed_ring': False, 'segments': 3}, {'segments': 'auto'}):
            calls.append(mk('cell_to_boundary', anc['cell'], o))
        res_ = max(0, anc['res'])
        for d in (1, 2):
            calls.append(mk('cell_to_children', anc['cell'], min(29, res_ + d)))
            calls.append(mk('uncompact', [anc['cell']], min(29, res_ + d)))
    for _ in range(24):
        calls.append(g.coarse_call(wchoice(rng, {'cell_to_boundary': 4, 'cell_to_lonlat': 2, 'cell_to_children': 3, 'uncompact': 3,
                                                  'compact': 2, 'cell_to_parent': 1, 'get_res0_cells': 1})))
    while len(calls) < n:
        calls.append(g.call(wchoice(rng, {'all': 5, 'hier': 3, 'geo': 2}), g.base() if rng.random() < 0.6 else None))
    pool = []
    seen = set()
    for c in calls:
        k = call_key(c)
        if k in seen or not ctx.usable(c):
            continue
        seen.add(k)
        if ctx.oracle(c)['steps'] > 20_000:
            continue
        pool.append((c, _slots(ctx.writes(c))))
    writers = {}
    for i, (c, sl) in enumerate(pool):
        for k, h in sl.items():
            writers.setdefault(k, []).append((i, h))
    # candidates grouped by the top-level place (module global, or attribute / slot of it) they lie under, so that a
    # structure with hundreds of slots does not crowd out a single shared attribute
    cands = {True: {}, False: {}}
    for k, ws in sorted(writers.items()):
        if len(ws) < 2 or k[0] > 4:
            continue
        differ = len({h for _, h in ws}) > 1
        top = ''.join(_accessors(k[1])[:2])
        cands[differ].setdefault(top, []).append((1.0 / len(ws) ** 2, k, ws))
    return {'calls': [c for c, _ in pool], 'cands': cands,
            'places_written_by_two_or_more_calls': sum(len(v) for d in cands.values() for v in d.values()),
            'places_written_with_different_content': sum(len(v) for v in cands[True].values()),
            'top_level_places_with_different_content': sorted(cands[True])}


def gen_conflict_sweep(ctx, rng, tier):
    """Conflict-directed pair: two calls whose solo executions change the same piece of library state (the same
    global, attribute of a long-lived object, list slot or dict entry) -- with different content (they can
    overwrite each other) or, less often, the same content (both fill one cold slot).  Which objects two calls
    share is invisible in their arguments (a face shape shared by all resolution-0 cells, a memo that leaves an
    option out of its key); the write sets show it.  The pair is then swept exhaustively."""
    pool = getattr(ctx, 'conflict_pool', None)
    if not pool:
        return None
    differ = bool(pool['cands'][True]) and (rng.random() < 0.75 or not pool['cands'][False])
    tops = pool['cands'][differ]
    if not tops:
        return None
    cands = tops[rng.choice(sorted(tops))]
    tot = sum(c[0] for c in cands)
    x = rng.random() * tot
    pick = cands[-1]
    for c in cands:
        x -= c[0]
        if x < 0:
            pick = c
            break
    _, key, ws = pick
    ws = list(ws)
    rng.shuffle(ws)
    ia, ha = ws[0]
    rest = [(i, h) for i, h in ws[1:] if (h != ha) == differ] or ws[1:]
    ib = rest[0][0]
    A, B = pool['calls'][ia], pool['calls'][ib]
    gran = 'instr' if ctx.oracle(A, gran='instr')['steps'] + 1 <= (1200 if tier == 'quick' else 6000) else 'line'
    threads = [[A], [B]]
    est = sum(ctx.oracle(c, gran=gran)['steps'] for tc in threads for c in tc)
    extra = {}
    pr = make_probes(Gen(rng, ctx), ctx, threads, 2)
    if pr:
        extra['probes'] = pr
    return {'threads': threads, 'warm': [], 'plan': {'plan': 'one', 'a': 0, 'k': 0, 'order': [1]}, 'seed': 0, **extra,
            'budget': 20 * est + 100_000 * (1 if gran == 'line' else 8), 'est_len': est, 'gran': gran, 'post': True,
            'conflict': {'place': key[1][:160], 'different_content': differ, 'writers_in_pool': len(ws), 'pool': len(pool['calls'])},
            'conf': {'T': 2, 'locality': 'conflict', 'mix': 'all', 'temp': 'cold', 'counts': [1, 1]}}


def gen_spec(ctx, rng, tier, force=None):
    """Draw one run: configuration (swarm), workload, plan."""
    force = force or {}
    g = Gen(rng, ctx)
    T = force.get('T') or rng.choice([2, 2, 2, 3, 3, 4])
    locality = force.get('locality') or wchoice(rng, {'identical': 10, 'samecell': 15, 'near': 27, 'face': 10, 'edge': 12, 'far': 26})
    mix = force.get('mix') or wchoice(rng, {'forward': 13, 'inverse': 13, 'boundary': 13, 'geo': 31, 'all': 16, 'hier': 6, 'coarse': 8})
    temp = force.get('temp') or wchoice(rng, {'cold': 38, 'warm': 21, 'hot': 17, 'recent': 12, 'other': 8, 'capacity': 4})
    gran = force.get('gran') or ('instr' if rng.random() < (0.1 if tier == 'thorough' else 0.04) else 'line')
    counts = [rng.randint(1, 3) for _ in range(T)]
    while sum(counts) > 9:
        counts[counts.index(max(counts))] -= 1
    if 'counts' in force:
        counts = force['counts']
    threads = []
    if locality == 'identical':
        base = g.base()
        one = [_usable_call(g, ctx, mix, base) for _ in range(counts[0])]
        threads = [[dict(c) for c in one] for _ in range(T)]
    elif locality == 'samecell':
        threads = [[_same_cell_call(g, ctx, sc) for _ in range(n)] for sc in [_same_cell_anchor(g)] for n in counts]
    elif locality == 'near':
        base = g.base()
        threads = [[_usable_call(g, ctx, mix, base) for _ in range(n)] for n in counts]
    elif locality == 'edge':
        # every thread works on a point of some face edge (reflected triangles, cells straddling faces)
        for n in counts:
            b = (g.point('edge'), rng.randint(1, 12))
            threads.append([_usable_call(g, ctx, mix, b) for _ in range(n)])
    elif locality == 'face':
        p0, r0 = g.base()
        for n in counts:
            b = (g._offset(p0, rng.uniform(0.0, 25.0)), g.res(0, 24))
            threads.append([_usable_call(g, ctx, mix, b) for _ in range(n)])
    else:
        for n in counts:
            b = g.base()
            threads.append([_usable_call(g, ctx, mix, b) for _ in range(n)])
    warm = []
    if temp == 'warm':
        for _ in range(rng.randint(1, 8)):
            warm.append(_usable_call(g, ctx, 'geo', g.base() if rng.random() < 0.5 else None))
    elif temp == 'hot':
        warm = [dict(c) for tc in threads for c in tc]
    elif temp == 'recent':
        # some thread's first call repeats the most recent call made before the threads start
        for _ in range(rng.randint(0, 3)):
            warm.append(_usable_call(g, ctx, 'geo', g.base()))
        warm.append(dict(threads[rng.randrange(T)][0]))
    elif temp == 'other':
        # state is non-empty but was left by calls about other cells
        for _ in range(rng.randint(1, 2)):
            warm.append(_usable_call(g, ctx, 'geo', g.base()))
    bulk = None
    if temp == 'capacity':
        # the threads start a handful of inserts short of a round capacity (size-bounded caches evict or
        # reset exactly there, and never in a young process)
        caps = {64: 6, 128: 6, 256: 6, 512: 6, 1000: 5, 1024: 8, 2048: 5, 4096: 4}
        if tier == 'thorough':
            caps.update({8192: 2, 10000: 2, 16384: 2, 32768: 1, 65536: 3})
        bulk = {'kind': wchoice(rng, {'cell_to_lonlat': 6, 'cell_to_boundary': 2, 'lonlat_to_cell': 2}),
                'n': max(1, wchoice(rng, caps) - rng.randint(0, 8)), 'seed': rng.getrandbits(32)}
    solo_line = [[ctx.oracle(c)['steps'] for c in tc] for tc in threads]
    if gran == 'instr' and max(max(x) for x in solo_line) > 40_000:
        gran = 'line'                    # instruction granularity only for calls of ordinary size (wall-clock bound)
    solo = solo_line if gran == 'line' else [[ctx.oracle(c, gran='instr')['steps'] for c in tc] for tc in threads]
    est = sum(sum(s) for s in solo)
    budget = 20 * est + 100_000 * (1 if gran == 'line' else 8)
    plan_kind = force.get('plan') or ('rwh' if (bulk and rng.random() < 0.7) else None) or wchoice(rng, {'rw': 18, 'rwh': 14, 'rwn': 14, 'pct': 10, 'one': 34, 'rr': 10})
    if plan_kind == 'rw':
        plan = {'plan': 'rw', 'p': rng.choice(RW_P)}
    elif plan_kind == 'rwh':
        plan = {'plan': 'rwh', 'p_hot': rng.choice([1.0, 0.5, 0.25, 0.1]), 'p_cold': rng.choice([0.0, 0.0, 1 / 512])}
    elif plan_kind == 'rwn':
        plan = {'plan': 'rwn', 'p_novel': rng.choice([1.0, 0.5, 0.25]), 'p_old': rng.choice([0.0, 0.0, 1 / 512])}
    elif plan_kind == 'pct':
        plan = {'plan': 'pct', 'd': rng.choice([1, 2, 3])}
    elif plan_kind == 'rr':
        plan = {'plan': 'rr', 'q': rng.choice(RR_Q), 'phase': rng.randrange(1000), 'first': rng.randrange(T)}
    else:
        a = rng.randrange(T)
        total = max(1, sum(solo[a]))
        k = rng.randrange(total)
        by_loc = 'uniform'
        mode = wchoice(rng, {'uniform': 25, 'line': 25, 'hot': 50})
        if mode != 'uniform':
            # 'line': uniform over the distinct source lines of A's solo trace (rare lines get
            # equal weight); 'hot': uniform over the distinct lines that touch process-global
            # state, preempting right before or right after such a line
            off = 0
            locs = {}
            for c, n in zip(threads[a], solo[a]):
                tr = ctx.oracle(c, want_trace=True, gran=gran)['trace'] or []
                for j, l in enumerate(tr):
                    if mode == 'line':
                        locs.setdefault(l, []).append(off + j)
                    elif l in ctx.hot:
                        locs.setdefault(l, []).append(off + j)
                        locs.setdefault(l + '+', []).append(off + j + 1)
                off += n
            if locs:
                l = rng.choice(sorted(locs))
                k = rng.choice(locs[l])
                by_loc = mode
        order = [x for x in range(T) if x != a]
        rng.shuffle(order)
        plan = {'plan': 'one', 'a': a, 'k': k, 'order': order, 'by_loc': by_loc}
    kill = None
    # The fault "one thread's call dies part-way (MemoryError at an interrupt point)" is implemented but NOT
    # drawn by the deciding check: C16 quantifies over schedules of calls, not over crashes of other threads.
    # With it, a property-preserving lazy-import refactor (control ok6) was reported because CPython hands
    # threads that wait for a module whose import then fails a half-initialised module object (ImportError in
    # the waiters) -- an alarm that needs an injected fault the property does not speak about.  DESIGN.md 10.2.
    if force.get('kill') and gran == 'line':
        kt = rng.randrange(T)
        ipts = sum(ctx.oracle(c, gran='ipoint')['isteps'] for c in threads[kt])
        kill = {'t': kt, 'k': rng.randrange(max(1, ipts)), 'exc': 'MemoryError'}
    spec = {
        'threads': threads, 'warm': warm, 'plan': plan, 'seed': rng.getrandbits(48),
        'budget': budget, 'est_len': est, 'gran': gran, 'post': True,
        'conf': {'T': T, 'locality': locality, 'mix': mix, 'temp': temp, 'counts': counts},
    }
    if kill:
        spec['kill'] = kill
    if bulk:
        spec['bulk'] = bulk
    pr = make_probes(g, ctx, threads, rng.randint(1, 3))
    if pr:
        spec['probes'] = pr
    if force.get('clock_jumps'):
        # (implemented, not drawn by the deciding check: time dependence is C17's to report, and the
        # sequential-explanation step could not tell it from a schedule dependence)
        spec['clock_jumps'] = [[rng.randrange(max(1, est)), rng.choice([0.5, 61.0, 3601.0, 86401.0, -10.0])]
                               for _ in range(rng.randint(1, 3))]
    return spec


def expected(ctx, spec):
    return [[ctx.oracle(c) for c in tc] for tc in spec['threads']]


def _explainable(ctx, spec, res, limit=1700):
    """Is there a sequential order of the run's calls (respecting each thread's
    program order, after the same warm-up) whose single-threaded execution
    yields exactly the observed values?  Linearizability with the library
    itself as the sequential specification."""
    counts = [len(tc) for tc in spec['threads']]
    observed = [[r[0] for r in row] for row in res['results']]
    tried = [0]

    def orders(prefix, left):
        if tried[0] >= limit:
            return
        if not any(left):
            yield list(prefix)
            return
        for t in range(len(left)):
            if left[t]:
                left[t] -= 1
                prefix.append(t)
                yield from orders(prefix, left)
                prefix.pop()
                left[t] += 1

    for order in orders([], list(counts)):
        tried[0] += 1
        if tried[0] > limit:
            break
        s = {'threads': spec['threads'], 'warm': spec['warm'], 'order': order}
        if spec.get('kill'):
            s['kill'] = spec['kill']
        r = ctx.run_seq(s)
        got = [[x[0] for x in row] for row in r['results']]
        if got == observed and (res['post'] is None or (r['post'] == res['post'] and r['post_seq'] == res['post_seq'])):
            return order
    return None


def judge(ctx, spec, res, explain=True):
    """Returns None if the property held on this run, else a violation dict."""
    if res['aborted']:
        if res['aborted'].startswith('harness'):
            raise RuntimeError(res['aborted'])
        return {'kind': 'no-return' if res['aborted'] == 'budget' else 'deadlock',
                'detail': 'run stopped: %s after %d steps (budget %d)' % (res['aborted'], res['steps'], spec['budget'])}
    exp = expected(ctx, spec)
    v = None
    for t, tc in enumerate(spec['threads']):
        for i, c in enumerate(tc):
            e = exp[t][i]
            got, kept = res['results'][t][i]
            if res.get('killed') and res['killed'][0] == t and res['killed'][1] == i:
                # this call was aborted by the injected fault: its own outcome is not judged,
                # but it must still have left its arguments alone
                if e['args_kept'] and not kept:
                    v = {'kind': 'argument-modified', 'thread': t, 'call': i, 'f': c['f'], 'call_repr': call_repr(c),
                         'expected': e['outcome'], 'observed': got}
                    break
                continue
            if got != e['outcome']:
                if e['outcome'][0] == 'ok' and got[0] == 'exc':
                    kind = 'raised'
                elif e['outcome'][0] == 'exc' and got[0] == 'exc':
                    kind = 'exception-differs'
                else:
                    kind = 'wrong-value'
                v = {'kind': kind, 'thread': t, 'call': i, 'f': c['f'], 'call_repr': call_repr(c),
                     'expected': e['outcome'], 'observed': got}
                break
            if e['args_kept'] and not kept:
                v = {'kind': 'argument-modified', 'thread': t, 'call': i, 'f': c['f'], 'call_repr': call_repr(c),
                     'expected': e['outcome'], 'observed': got}
                break
        if v:
            break
    if v is None and res.get('changed_later'):
        t, i, now = res['changed_later'][0]
        c = spec['threads'][t][i]
        v = {'kind': 'returned-object-changed-later', 'thread': t, 'call': i, 'f': c['f'], 'call_repr': call_repr(c),
             'expected': res['results'][t][i][0], 'observed': now}
    if v is None and res['post'] is not None and spec.get('probes') and len(res['post']) > len(spec['threads']):
        T = len(spec['threads'])
        for which in ('post', 'post_seq'):
            for i, c in enumerate(spec['probes']):
                e = ctx.oracle(c)['outcome']
                if res[which][T][i] != e:
                    v = {'kind': 'poisoned-after-quiescence', 'thread': T, 'call': i, 'f': c['f'], 'call_repr': call_repr(c),
                         'expected': e, 'observed': res[which][T][i],
                         'when': 'a related call (not one of the run) issued after quiescence'}
                    break
            if v:
                break
    if v is None and res['post'] is not None:
        for which in ('post', 'post_seq'):
            for t, tc in enumerate(spec['threads']):
                for i, c in enumerate(tc):
                    if res[which][t][i] != exp[t][i]['outcome']:
                        v = {'kind': 'poisoned-after-quiescence', 'thread': t, 'call': i, 'f': c['f'],
                             'call_repr': call_repr(c), 'expected': exp[t][i]['outcome'], 'observed': res[which][t][i],
                             'when': 'issued first after quiescence' if which == 'post' else 'issued in sequence after quiescence'}
                        break
                if v:
                    break
            if v:
                break
    if v is None:
        return None
    v['detail'] = '%s: %s: %s' % (v['kind'], v['call_repr'][:160], canon.diff_text(v['expected'], v['observed']))
    if explain:
        order = _explainable(ctx, spec, res)
        if order is not None:
            v['sequentially_explainable'] = order
            v['kind'] = 'history-dependence'
    return v


def nontrivial(res):
    """>= 1 preemption while >= 2 threads were inside a5 calls."""
    return res['overlap_switches'] >= 1


def run_one(ctx, run_seed, tier, force=None):
    rng = random.Random(run_seed)
    spec = gen_spec(ctx, rng, tier, force)
    res = ctx.run_threads(spec)
    v = judge(ctx, spec, res)
    if v is not None and v.get('kind') == 'history-dependence':
        # not C16's to report: the same values arise without any interleaving (C17 territory)
        hd, v = v, None
    else:
        hd = None
    summ = {
        'seed': run_seed, 'digest': res['digest'], 'steps': res['steps'], 'nswitch': res['nswitch'],
        'overlap': res['overlap_switches'], 'plan': spec['plan']['plan'], 'gran': spec['gran'],
        'conf': spec['conf'], 'pairs': res['switch_pairs'], 'ncalls': sum(len(t) for t in spec['threads']),
        'funcs': sorted({c['f'] for tc in spec['threads'] for c in tc}),
        'fired': (res['nswitch'] > len(spec['threads']) - 1) if spec['plan']['plan'] == 'one' else None,
        'history_dependence': hd is not None,
        'raised_ok': sum(1 for tc in res['results'] for r in tc if r[0][0] == 'exc'),
        'killed': bool(res.get('killed')),
        'fair_switches': res.get('fair_switches', 0),
        'clock_jumps': res.get('clock_jumps', 0), 'clock_reads': res.get('clock_reads', 0), 'timeouts_fired': res.get('timeouts_fired', 0),
    }
    return summ, spec, res, v


def sample_of(spec, res):
    return {
        'threads': [[call_repr(c, 60) for c in tc] for tc in spec['threads']],
        'warm': [call_repr(c, 60) for c in spec['warm']][:4] + (['...'] if len(spec['warm']) > 4 else []),
        'plan': {k: v for k, v in spec['plan'].items()}, 'gran': spec['gran'],
        'segments': res['segments'][:24] + ([['...', len(res['segments'])]] if len(res['segments']) > 24 else []),
        'steps': res['steps'], 'switches': res['nswitch'],
    }
