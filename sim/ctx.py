"""Worker-side context: the imported-but-never-called a5 of one source root,
memoised cold oracles, and the node launchers."""
import os
import sys
import resource
import importlib

from . import canon, engine, forks
from .workload import mk, call_key


def _limit_memory():
    engine.patch_threading()         # node/oracle children: locks created at call time are cooperative too
    try:
        lim = 6 << 30
        resource.setrlimit(resource.RLIMIT_AS, (lim, lim))
    except Exception:
        pass


class Ctx:
    def __init__(self, a5_root):
        self.root = os.path.realpath(a5_root)
        engine.patch_threading()                     # dormant cooperative-lock seam
        # drop any a5 that is already imported / importable from elsewhere
        for k in [k for k in sys.modules if k == 'a5' or k.startswith('a5.')]:
            del sys.modules[k]
        sys.path.insert(0, self.root)
        try:
            self.a5 = importlib.import_module('a5')  # imported, NEVER called here
        finally:
            engine.unpatch_threading()
        f = os.path.realpath(self.a5.__file__)
        if not f.startswith(self.root + os.sep):
            raise RuntimeError('a5 imported from %s, expected under %s' % (f, self.root))
        # The template must stay cold.  The static scan below only inspects objects, but to be sure a
        # monitor counts a5 line events while it runs: any event means library code was executed.
        self.template_warmed = 0
        self.hotset = set()
        if not os.environ.get('A5SIM_NO_HOT'):
            guard = engine.Seam(self.root, 'line')
            guard.install()
            cnt = [0]

            def _count(code, pos):
                cnt[0] += 1
            guard.handler = _count
            try:
                self.hotset = engine.hot_lines(os.path.join(self.root, 'a5') + os.sep)  # (filename, line)
            except Exception:
                self.hotset = set()      # only a bias; never needed for soundness
            finally:
                guard.handler = None
                guard.uninstall()
            self.template_warmed = cnt[0]
        pre = len(os.path.join(self.root, 'a5') + os.sep)
        self.hot = {'%s:%d' % (f[pre:], l) for f, l in self.hotset}                   # 'rel/path.py:line'
        # library at-fork handlers (e.g. "give the child a new lock") run inside os.fork(): the seam
        # must be installed at that moment, or the child would get real, uninterceptable primitives
        forks.before_fork = engine.patch_threading
        forks.after_fork_in_parent = engine.unpatch_threading
        self.oracle_log = None           # when a list: every reference call asked for is appended (triage only)
        self._memo = {}
        self._tmemo = {}
        self._frame = None
        self.oracle_forks = 0

    # ---- oracle: the library itself, alone, cold, on one thread -------------------
    def _oracle_child(self, call, want_trace, gran='line'):
        _limit_memory()
        seam = engine.Seam(self.root, 'line' if gran == 'ipoint' else gran)
        seam.install(ipoints=(gran == 'ipoint'))
        r = engine.solo_call(self.a5, seam, call, want_trace and gran != 'ipoint', cap=3_000_000 if gran != 'instr' else 30_000_000)
        if gran != 'ipoint':
            r.pop('itrace', None)
            r.pop('isteps', None)
        return r

    def oracle(self, call, want_trace=False, gran='line'):
        """gran='line' is the reference (value, line-step count); gran='instr' only adds
        instruction-level step counts and traces for placing instruction-level preemptions;
        gran='ipoint' adds the call's interrupt points ('isteps', 'itrace') for placing faults."""
        if self.oracle_log is not None and gran == 'line':
            self.oracle_log.append(call)
        k = call_key(call) if gran == 'line' else {'instr': 'N#', 'ipoint': 'P#'}[gran] + call_key(call)
        if gran == 'ipoint':
            want_trace = True
        if want_trace:
            r = self._tmemo.get(k)
            if r is None:
                r = forks.fork_call(self._oracle_child, (call, True, gran), 240.0)
                self.oracle_forks += 1
                if len(self._tmemo) > 48:
                    self._tmemo.clear()
                self._tmemo[k] = r
                if k not in self._memo:
                    self._memo[k] = {x: r[x] for x in ('outcome', 'steps', 'args_kept')}
            return r
        r = self._memo.get(k)
        if r is None:
            r = forks.fork_call(self._oracle_child, (call, False, gran), 240.0)
            self.oracle_forks += 1
            r = {x: r[x] for x in ('outcome', 'steps', 'args_kept')}
            if len(self._memo) > 200000:
                self._memo.clear()
            self._memo[k] = r
        return r

    # ---- write set of a solo cold call (workload selection only) -----------------------
    def _writes_child(self, call):
        _limit_memory()
        return engine.write_set(self.a5, call)

    def writes(self, call):
        k = 'W#' + call_key(call)
        r = self._memo.get(k)
        if r is None:
            try:
                r = forks.fork_call(self._writes_child, (call,), 120.0)
            except Exception:
                r = {}
            self._memo[k] = r
        return r

    def value(self, call):
        o = self.oracle(call)['outcome']
        if o[0] != 'ok':
            return None
        return canon.dec(o[1])

    def usable(self, call):
        """False for calls the oracle had to abandon (runaway size)."""
        o = self.oracle(call)['outcome']
        return o[0] != 'abort' and o != ['exc', 'MemoryError']

    # ---- the 62 frame points, through the public API only ------------------------
    def frame(self):
        if self._frame is None:
            cells = self.value(mk('get_res0_cells')) or []
            centres, verts, edges, mids = [], [], [], []
            for c in cells:
                p = self.value(mk('cell_to_lonlat', c))
                if isinstance(p, tuple) and len(p) == 2:
                    centres.append(p)
                b = self.value(mk('cell_to_boundary', c, {'segments': 1, 'closed_ring': False}))
                if isinstance(b, list) and len(b) >= 3:
                    for i in range(len(b)):
                        a, d = b[i], b[(i + 1) % len(b)]
                        verts.append(a)
                        edges.append((a, d))
                        mids.append(((a[0] + d[0]) / 2, (a[1] + d[1]) / 2))
            if not centres:
                centres = [(0.0, 0.0)]
            if not verts:
                verts, edges, mids = [(10.0, 10.0)], [((10.0, 10.0), (20.0, 20.0))], [(15.0, 15.0)]
            self._frame = {'centres': centres, 'vertices': verts, 'edges': edges, 'midpoints': mids}
        return self._frame

    # ---- nodes ---------------------------------------------------------------------
    def _threads_child(self, spec):
        _limit_memory()
        seam = engine.Seam(self.root, spec.get('gran', 'line'))
        seam.install(ipoints=bool(spec.get('kill')))
        return engine.run_threads_node(self.a5, seam, spec, hot=self.hotset)

    def _sweep_child(self, spec, ks):
        _limit_memory()
        seam = engine.Seam(self.root, spec.get('gran', 'line'))
        seam.install()
        return engine.run_threads_sweep_node(self.a5, seam, spec, ks, hot=self.hotset)

    def run_sweep(self, spec, ks, wall=3000.0):
        return forks.fork_call(self._sweep_child, (spec, ks), wall)

    def _seq_child(self, spec):
        _limit_memory()
        seam = engine.Seam(self.root, 'line')
        seam.install(ipoints=bool(spec.get('kill')))
        return engine.run_seq_node(self.a5, seam, spec)

    def _history_child(self, spec):
        _limit_memory()
        seam = engine.Seam(self.root, 'line')
        seam.install(ipoints=any(op.get('op') == 'interrupt' for op in spec['ops']))
        out = engine.run_history_node(self.a5, seam, spec)
        out['probes'] = probes(self.a5)
        return out

    @staticmethod
    def _filler_allowance(spec):
        """Extra wall clock for capacity fillers (they run at full speed but can be tens of thousands of calls)."""
        n = (spec.get('bulk') or {}).get('n', 0) + sum(op.get('n', 0) for op in spec.get('ops', []) if op.get('op') == 'bulk')
        return 0.02 * n

    def run_threads(self, spec, wall=180.0):
        return self._retry(self._threads_child, spec, wall + self._filler_allowance(spec))

    def run_seq(self, spec, wall=180.0):
        return self._retry(self._seq_child, spec, wall + self._filler_allowance(spec))

    def run_history(self, spec, wall=180.0):
        return self._retry(self._history_child, spec, wall + self._filler_allowance(spec))

    def _retry(self, fn, spec, wall):
        try:
            return forks.fork_call(fn, (spec,), wall)
        except forks.NodeTimeout:
            # deterministic: retry once; a repeat is a harness error, never a pass
            return forks.fork_call(fn, (spec,), wall * 2)


def probes(a5mod):
    """Coverage probes by introspection of the pinned layout; None if refactored away."""
    out = {}
    try:
        cell_mod = sys.modules.get('a5.core.cell')
        d = getattr(cell_mod, '_dodecahedron', None)
        st = getattr(d, 'spherical_triangles', None)
        if isinstance(st, list):
            out['sph_filled'] = sum(1 for x in st if x is not None)
            out['sph_reflected'] = sum(1 for i, x in enumerate(st) if x is not None and i >= 120)
            out['faces_touched'] = len({(i % 120) // 10 for i, x in enumerate(st) if x is not None})
        ft = getattr(d, 'face_triangles', None)
        if isinstance(ft, list):
            out['face_filled'] = sum(1 for x in ft if x is not None)
        inv = getattr(getattr(d, 'polyhedral', None), '_inverse_triangle_cache', None)
        if isinstance(inv, dict):
            out['inv_cache'] = len(inv)
    except Exception:
        pass
    return out
