"""Minimisation of failing runs.  Every candidate is executed in a fresh node
and must show the same violation *class* (same property, same kind)."""
import time
import copy

from . import c16 as C16


class Budget:
    def __init__(self, max_runs=300, max_s=90.0):
        self.max_runs, self.deadline, self.runs = max_runs, time.monotonic() + max_s, 0

    def ok(self):
        return self.runs < self.max_runs and time.monotonic() < self.deadline

    def tick(self):
        self.runs += 1


def _norm(segs):
    out = []
    for t, n in segs:
        if n <= 0:
            continue
        if out and out[-1][0] == t:
            out[-1][1] += n
        else:
            out.append([t, n])
    return out


def ddmin(items, test, budget):
    """Classic ddmin over a list; test(list) -> bool (True = still fails)."""
    n = 2
    while len(items) >= 2 and budget.ok():
        chunk = max(1, len(items) // n)
        reduced = False
        for i in range(0, len(items), chunk):
            if not budget.ok():
                break
            cand = items[:i] + items[i + chunk:]
            if cand != items and test(cand):
                items = cand
                n = max(n - 1, 2)
                reduced = True
                break
        if not reduced:
            if chunk == 1:
                break
            n = min(len(items), n * 2)
    return items


# ----------------------------------------------------------------------------
# C16
# ----------------------------------------------------------------------------

def minimise_c16(ctx, spec, res, viol, max_runs=300, max_s=90.0):
    """Returns (spec', res', viol') with a replay plan."""
    if spec.get('gran') == 'instr':
        max_s *= 3                       # instruction-granularity nodes are ~10x slower
    budget = Budget(max_runs, max_s)
    kind = viol['kind']

    def attempt(s):
        budget.tick()
        r = ctx.run_threads(s)
        v = C16.judge(ctx, s, r, explain=False)
        if v is not None and v['kind'] == kind:
            return r, v
        return None

    def with_segments(s, segs):
        s2 = copy.deepcopy(s)
        s2['plan'] = {'plan': 'replay', 'segments': _norm(segs)}
        return s2

    cur = with_segments(spec, res['segments'])
    cur['log_limit'] = 200000            # the replay records every switch, for phase S
    got = attempt(cur)
    if got is None:
        # cannot happen for a deterministic simulator; keep the original
        return spec, res, viol
    cur_res, cur_v = got
    cur.pop('log_limit', None)

    def research(s):
        """Look for the same failure again on a structurally smaller workload."""
        got = attempt(s)
        if got:
            return s, got
        T = len(s['threads'])
        tries = []
        lens = [sum(ctx.oracle(c)['steps'] for c in tc) for tc in s['threads']]
        for a in range(T):
            for frac in (0.1, 0.3, 0.5, 0.7, 0.9):
                tries.append({'plan': 'one', 'a': a, 'k': int(lens[a] * frac), 'order': [x for x in range(T) if x != a]})
        for sd in range(4):
            tries.append({'plan': 'rw', 'p': 1 / 32, '_seed': sd})
        for pl in tries:
            if not budget.ok():
                break
            s2 = copy.deepcopy(s)
            sd = pl.pop('_seed', None)
            s2['plan'] = pl
            if sd is not None:
                s2['seed'] = sd
            got = attempt(s2)
            if got:
                s3 = with_segments(s2, got[0]['segments'])
                got3 = attempt(s3)
                if got3:
                    return s3, got3
        return None

    # --- phase S: the same failure under a single preemption taken from the trace ----
    if len(cur['plan']['segments']) > 3 and budget.ok():
        T = len(cur['threads'])
        seen = set()
        hot_c, cold_c = [], []
        per_loc = {}
        hot = getattr(ctx, 'hot', set())
        for sw in cur_res.get('switches', []):
            if len(sw) >= 5 and sw[3] not in (None, 'lock', 'sleep') and (sw[1], sw[4]) not in seen:
                seen.add((sw[1], sw[4]))
                if sw[3] in hot:
                    lk = (sw[1], sw[3], sw[5] if len(sw) > 5 else None)      # thread, line, position within the line
                    n = per_loc.get(lk, 0)
                    per_loc[lk] = n + 1
                    if n < 3:
                        hot_c.append(sw)
                else:
                    cold_c.append(sw)
        # switches at lines that touch process-global state first (a few per line), then
        # the others spread over the whole trace
        if len(hot_c) > 110:
            step = len(hot_c) / 110.0
            hot_c = [hot_c[int(i * step)] for i in range(110)]
        if len(cold_c) > 40:
            step = len(cold_c) / 40.0
            cold_c = [cold_c[int(i * step)] for i in range(40)]
        cands = hot_c + cold_c
        for sw in cands:
            if not budget.ok() or budget.runs > max_runs * 0.35:
                break
            a, to = sw[1], sw[2]
            s2 = copy.deepcopy(cur)
            s2['plan'] = {'plan': 'one', 'a': a, 'k': sw[4], 'order': [to] + [x for x in range(T) if x not in (a, to)]}
            got = attempt(s2)
            if got:
                s3 = with_segments(s2, got[0]['segments'])
                got3 = attempt(s3)
                if got3:
                    cur, (cur_res, cur_v) = s3, got3
                    break

    # --- phase S2: two cuts (A runs to a, B runs to b, A completes, B completes) ----
    if len(cur['plan']['segments']) > 4 and budget.ok():
        sws = [sw for sw in cur_res.get('switches', []) if len(sw) >= 5 and sw[3] not in (None, 'lock', 'sleep')]
        hot = getattr(ctx, 'hot', set())
        pairs = []
        tpos = {}
        for i, sw in enumerate(sws):
            tpos[sw[1]] = sw[4]
            if i + 1 < len(sws):
                nx = sws[i + 1]
                if nx[1] == sw[2] and nx[2] == sw[1] and (sw[3] in hot or nx[3] in hot):
                    pairs.append((sw[1], sw[4], nx[1], nx[4]))
        if len(pairs) > 60:
            step = len(pairs) / 60.0
            pairs = [pairs[int(i * step)] for i in range(60)]
        for a, ka, b, kb in pairs:
            if not budget.ok() or budget.runs > max_runs * 0.5:
                break
            segs = []
            if ka > 0:
                segs.append([a, ka])
            if kb > 0:
                segs.append([b, kb])
            segs.append([a, 10 ** 9])
            s2 = with_segments(cur, segs)
            got = attempt(s2)
            if got:
                s3 = with_segments(s2, got[0]['segments'])
                got3 = attempt(s3)
                if got3 and len(s3['plan']['segments']) < len(cur['plan']['segments']):
                    cur, (cur_res, cur_v) = s3, got3
                    break

    # --- phase A: structure -------------------------------------------------
    if cur.get('kill') and budget.ok():
        s2 = copy.deepcopy(cur)
        del s2['kill']
        got = attempt(s2)
        if got:
            cur, (cur_res, cur_v) = s2, got
    changed = True
    while changed and budget.ok():
        changed = False
        # drop the warm-up prefix (all, then single calls)
        if cur['warm']:
            cands = [[]] + [cur['warm'][:i] + cur['warm'][i + 1:] for i in range(len(cur['warm']))][:8]
            for w in cands:
                if not budget.ok():
                    break
                s2 = copy.deepcopy(cur)
                s2['warm'] = w
                got = attempt(s2)
                if got:
                    cur, (cur_res, cur_v) = s2, got
                    changed = True
                    break
            if changed:
                continue
        # drop a whole thread
        if len(cur['threads']) > 2:
            for t in range(len(cur['threads'])):
                if not budget.ok():
                    break
                s2 = copy.deepcopy(cur)
                del s2['threads'][t]
                segs = [[x - (1 if x > t else 0), n] for x, n in cur['plan']['segments'] if x != t]
                s2 = with_segments(s2, segs)
                found = research(s2)
                if found:
                    cur, (cur_res, cur_v) = found
                    changed = True
                    break
            if changed:
                continue
        # drop single calls
        for t in range(len(cur['threads'])):
            if len(cur['threads'][t]) <= 1:
                continue
            for i in range(len(cur['threads'][t])):
                if not budget.ok():
                    break
                s2 = copy.deepcopy(cur)
                del s2['threads'][t][i]
                found = research(s2)
                if found:
                    cur, (cur_res, cur_v) = found
                    changed = True
                    break
            if changed:
                break

    # --- phase A2: look for the same failure under a single preemption ----------
    if len(cur['plan']['segments']) > 3 and budget.ok():
        T = len(cur['threads'])
        lens = [max(1, sum(ctx.oracle(c)['steps'] for c in tc)) for tc in cur['threads']]
        found = None
        grid = 24
        for g in range(grid):
            for a in range(T):
                if not budget.ok() or found:
                    break
                k = int(lens[a] * (g + 0.5) / grid)
                s2 = copy.deepcopy(cur)
                s2['plan'] = {'plan': 'one', 'a': a, 'k': k, 'order': [x for x in range(T) if x != a]}
                got = attempt(s2)
                if got:
                    s3 = with_segments(s2, got[0]['segments'])
                    got3 = attempt(s3)
                    if got3:
                        found = (s3, got3)
            if found or budget.runs > max_runs * 0.6:
                break
        if found:
            cur, (cur_res, cur_v) = found

    # --- phase A3: single preemption placed inside lines that touch process-global state ----
    if len(cur['plan']['segments']) > 3 and budget.ok():
        import random as _random
        rr = _random.Random(len(cur['plan']['segments']))
        T = len(cur['threads'])
        gran = cur.get('gran', 'line')
        hot = getattr(ctx, 'hot', set())
        found = None
        strata = []
        for a in range(T):
            off = 0
            byk = {}
            for c in cur['threads'][a]:
                o = ctx.oracle(c, want_trace=True, gran=gran)
                tr = o['trace'] or []
                run = 0
                for j, l in enumerate(tr):
                    run = run + 1 if (j > 0 and tr[j - 1] == l) else 0
                    if l in hot:
                        byk.setdefault((l, run), []).append(off + j)
                        byk.setdefault((l, run, '+'), []).append(off + j + 1)
                off += o['steps']
            for key, ks in byk.items():
                strata.append((a, ks))
        rr.shuffle(strata)
        for a, ks in strata:
            if not budget.ok() or budget.runs > max_runs * 0.85 or found:
                break
            k = rr.choice(ks)
            s2 = copy.deepcopy(cur)
            s2['plan'] = {'plan': 'one', 'a': a, 'k': k, 'order': [x for x in range(T) if x != a]}
            got = attempt(s2)
            if got:
                s3 = with_segments(s2, got[0]['segments'])
                got3 = attempt(s3)
                if got3:
                    found = (s3, got3)
        if found:
            cur, (cur_res, cur_v) = found

    # --- phase B: schedule --------------------------------------------------
    state = {'spec': cur, 'res': cur_res, 'v': cur_v}

    def seg_test(segs):
        s2 = with_segments(state['spec'], segs)
        got = attempt(s2)
        if got:
            state['spec'], state['res'], state['v'] = s2, got[0], got[1]
            return True
        return False

    segs = ddmin(list(state['spec']['plan']['segments']), seg_test, budget)
    # shrink segment lengths
    segs = [list(x) for x in state['spec']['plan']['segments']]
    i = 0
    while i < len(segs) and budget.ok():
        n = segs[i][1]
        for cand in (n // 2, n - 1):
            if cand <= 0 or cand >= n or not budget.ok():
                continue
            trial = [list(x) for x in segs]
            trial[i][1] = cand
            if seg_test(trial):
                segs = [list(x) for x in state['spec']['plan']['segments']]
                break
        i += 1
    state['spec']['minimiser'] = {'candidate_runs': budget.runs}
    return state['spec'], state['res'], state['v']
