"""C17 — every API call is a pure function of its arguments.

One run = one long-lived simulated interpreter (a cold node) driven through a
seeded sequence of ops by a simulated caller that owns the argument objects
and the returned objects.  Every completed call is compared bit for bit with
the value of the same call in a fresh process (the oracle); argument objects
must be unchanged by the call.  Faults: caller mutation of returned lists and
of its own argument objects after the call, aliasing (the very same argument
objects passed again), calls that raise part-way, and KeyboardInterrupt /
MemoryError raised at an arbitrary line event inside a call.
"""
import copy
import random

from . import canon
from .workload import Gen, mk, call_repr, wchoice, res_of
from .minimise import Budget, ddmin

MUT_HOW = ['clear', 'append', 'reverse', 'overwrite', 'pop', 'inner']


def _usable_call(g, ctx, mix, base, tries=6):
    for _ in range(tries):
        c = g.call(mix, base)
        if ctx.usable(c) and ctx.oracle(c)['steps'] <= 400_000:
            return c
    return mk('get_res0_cells')


def bad_call(g, ctx):
    """A call that (usually) raises part-way."""
    r = g.rng
    x = r.randrange(9)
    if x == 0:
        return mk('hex_to_u64', r.choice(['zz', '', '0x', 'g1', '12 34']))
    if x == 1:
        lst = g.cell_list(None)
        top = max([res_of(c) for c in lst] or [0])
        return mk('uncompact', lst[:40], max(-1, top - r.randint(1, 4)))
    if x == 2:
        c = g.cell(None)
        return mk('cell_to_parent', c, res_of(c) + r.randint(1, 3))
    if x == 3:
        c = g.cell(None)
        return mk('cell_to_children', c, r.choice([res_of(c) - 1, 31, 35]))
    if x == 4:
        return mk('lonlat_to_cell', r.choice([(float('nan'), 10.0), (10.0, float('nan')), (float('inf'), 0.0),
                                                (0.0, float('-inf')), (1e308, 1e308)]), g.res(0, 12))
    if x == 5:
        return mk('lonlat_to_cell', g.point(), r.choice([30, 31, 33, -2, -5]))
    if x == 6:
        return mk('cell_to_boundary', g.cell(None), {'segments': r.choice(['x', 2.5, [], (1,)])})
    if x == 7:
        return mk('cell_to_lonlat', g.weird_cell())
    return mk('cell_to_boundary', g.weird_cell(), *g.boundary_options())


def _retype_value(r, v, depth=0):
    """An equal-but-not-identical value: 3 <-> 3.0, 1 <-> True, 0.0 <-> -0.0, list <-> tuple, hex case.  A memo keyed
    by an argument conflates such values (3 == 3.0 and hash(3) == hash(3.0)) although the function's result may
    differ in type or value; a fresh process, which is asked with exactly these arguments, is the reference."""
    t = type(v)
    if t is bool:
        return int(v)
    if t is int:
        if v in (0, 1) and r.random() < 0.3:
            return bool(v)
        if abs(v) < (1 << 53):
            return float(v)
        return v
    if t is float:
        if v != v or v in (float('inf'), float('-inf')):
            return v
        if v == 0.0:
            return -v
        if abs(v) < (1 << 53) and v == int(v):
            return int(v)
        return v
    if t is str:
        return v.upper() if v != v.upper() else v.lower()
    if t is list:
        return tuple(v) if (depth > 0 or r.random() < 0.6) else [_retype_value(r, x, depth + 1) for x in v]
    if t is tuple:
        return list(v) if r.random() < 0.6 else tuple(_retype_value(r, x, depth + 1) for x in v)
    if t is dict:
        return {k: _retype_value(r, x, depth + 1) for k, x in v.items()}
    return v


def retype_call(r, call):
    """The same call with some arguments replaced by equal values of another type; None if nothing changes."""
    try:
        args = [canon.dec(a) for a in call['a']]
    except Exception:
        return None
    idx = [i for i in range(len(args))]
    r.shuffle(idx)
    changed = False
    for n, i in enumerate(idx):
        if n > 0 and r.random() < 0.5:
            continue
        v2 = _retype_value(r, args[i])
        if canon.enc(v2) != canon.enc(args[i]):
            args[i] = v2
            changed = True
    return mk(call['f'], *args) if changed else None


def derive(g, ctx, ops, callish):
    """A call whose arguments are computed from the (oracle) result of a recent
    earlier call of the same history: output fed back as input, the way real
    programs chain the API (index a point, fetch the cell polygon, look its
    vertices up again, walk to parents and children, compact and uncompact)."""
    r = g.rng
    if not callish:
        return None
    j = r.choice(callish[-4:]) if r.random() < 0.7 else r.choice(callish)
    src = ops[j]
    if 'f' not in src:
        return None
    f = src['f']
    val = ctx.value({'f': f, 'a': src['a']})
    if val is None:
        return None
    try:
        a0 = canon.dec(src['a'][0]) if src['a'] else None
    except Exception:
        a0 = None
    if f == 'cell_to_boundary' and isinstance(val, list) and val and isinstance(a0, int):
        res = max(0, res_of(a0))
        pt = r.choice(val)
        x = r.random()
        if x < 0.6:
            return mk('lonlat_to_cell', pt, res)                       # exactly a boundary vertex
        if x < 0.8:
            q = r.choice(val)
            return mk('lonlat_to_cell', ((pt[0] + q[0]) / 2, (pt[1] + q[1]) / 2), res)
        return mk('lonlat_to_cell', pt, min(29, max(0, res + r.choice([-1, 1, 2]))))
    if f == 'cell_to_lonlat' and isinstance(val, tuple) and isinstance(a0, int):
        return mk('lonlat_to_cell', val, max(0, res_of(a0)) if r.random() < 0.8 else g.res())
    if f == 'lonlat_to_cell' and isinstance(val, int):
        x = r.randrange(8)
        if x == 0:
            return mk('cell_to_boundary', val, {'segments': 1, 'closed_ring': r.random() < 0.5})
        if x == 1:
            return mk('cell_to_boundary', val, *g.boundary_options())
        if x == 2:
            return mk('cell_to_lonlat', val)
        if x == 3:
            return mk('cell_to_parent', val)
        if x == 4 and res_of(val) < 29:
            return mk('cell_to_children', val)
        if x == 5:
            return mk('u64_to_hex', val)
        if isinstance(a0, (tuple, list)) and len(a0) == 2 and len(src['a']) > 1:
            res = canon.dec(src['a'][1])
            if isinstance(res, int):
                return mk('lonlat_to_cell', g.near(tuple(a0), max(0, res)), res)      # local walk, same resolution
        return mk('get_resolution', val)
    if f in ('cell_to_children', 'uncompact', 'get_res0_cells') and isinstance(val, list) and val:
        x = r.random()
        if x < 0.4:
            lst = list(val)[:300]
            if r.random() < 0.5 and len(lst) > 1:
                del lst[r.randrange(len(lst))]
            r.shuffle(lst)
            return mk('compact', lst)
        c = r.choice(val)
        return mk(r.choice(['cell_to_boundary', 'cell_to_lonlat', 'cell_to_parent', 'get_resolution']), c)
    if f == 'compact' and isinstance(val, list) and val:
        top = max(res_of(c) for c in val)
        lst = [c for c in val if res_of(c) >= max(1, top - 2)][:16]
        return mk('uncompact', lst, min(30, top + r.randint(0, 1)))
    if f == 'cell_to_parent' and isinstance(val, int):
        return mk('cell_to_children', val) if res_of(val) >= 1 else mk('cell_to_lonlat', val)
    if f == 'u64_to_hex' and isinstance(val, str):
        return mk('hex_to_u64', val if r.random() < 0.7 else val.upper())
    if f == 'hex_to_u64' and isinstance(val, int):
        return mk('u64_to_hex', val)
    return None


def vertex_walk(g, ctx):
    """Template: index a point, look the cell's centre up again, fetch the cell
    polygon, then look every vertex of it up at the same resolution."""
    r = g.rng
    p, res = g.base()
    res = max(0, min(res, 29))
    if r.random() < 0.15:
        p = (p[0], r.choice([90.0, -90.0]))
    calls = [mk('lonlat_to_cell', p, res)]
    c = ctx.value(calls[0])
    if not isinstance(c, int):
        return calls
    centre = ctx.value(mk('cell_to_lonlat', c))
    calls.append(mk('cell_to_lonlat', c))
    if isinstance(centre, tuple):
        calls.append(mk('lonlat_to_cell', centre, res))
    bc = mk('cell_to_boundary', c, {'segments': 1, 'closed_ring': False})
    calls.append(bc)
    b = ctx.value(bc)
    if isinstance(b, list):
        vs = list(b)
        r.shuffle(vs)
        for v in vs[:r.randint(2, 5)]:
            calls.append(mk('lonlat_to_cell', v, res))
    return calls


def full_warm(ctx):
    """A sweep that touches every face and (nearly) every triangle slot, plain
    and reflected, through the public API only.  Cached per worker."""
    w = getattr(ctx, '_full_warm', None)
    if w is not None:
        return w
    w = []
    cells0 = ctx.value(mk('get_res0_cells')) or []
    for c0 in cells0:
        for res in (1, 2):
            ch = ctx.value(mk('cell_to_children', c0, res)) or []
            for c in ch:
                w.append(mk('cell_to_boundary', c, {'segments': 1}))
    fr = ctx.frame()
    for p in fr['vertices'] + fr['midpoints'] + fr['centres']:
        w.append(mk('lonlat_to_cell', p, 5))
    ctx._full_warm = w
    return w


def gen_history(ctx, rng, tier, faults, force=None):
    force = force or {}
    g = Gen(rng, ctx)
    mix = force.get('mix') or wchoice(rng, {'geo': 38, 'all': 36, 'hier': 9, 'coarse': 6, 'forward': 4, 'boundary': 4, 'inverse': 3})
    L = rng.randint(3, 25) if tier == 'quick' else rng.randint(3, 60)
    start = force.get('start') or wchoice(rng, {'cold': 50, 'warm': 38, 'full': 12 if tier == 'thorough' else 5})
    warm = []
    if start == 'warm':
        for _ in range(rng.randint(1, 12)):
            warm.append(_usable_call(g, ctx, 'geo', g.base() if rng.random() < 0.7 else None))
    elif start == 'full':
        warm = full_warm(ctx)
    bases = [g.base() for _ in range(rng.randint(1, 3))]
    scenario = force.get('scenario') or wchoice(rng, {'random': 55, 'dataflow': 25, 'vertex-walk': 10, 'capacity': 10})
    p_derive = {'random': 0.12, 'dataflow': 0.6, 'vertex-walk': 0.2, 'capacity': 0.1}[scenario]
    script = vertex_walk(g, ctx) if scenario == 'vertex-walk' else []
    if script:
        L = max(L, len(script) + rng.randint(0, 6))
    if faults:
        weights = {'call': 30, 'repeat': 12, 'alias': 7, 'mutate_result': 12, 'mutate_arg': 8, 'bad_call': 8, 'interrupt': 13, 'recycle': 3,
                   'clock_jump': 3, 'refill': 5, 'retype': 4}
    else:
        weights = {'call': 55, 'repeat': 23, 'alias': 11, 'recycle': 5, 'retype': 6}
    ops = []
    callish = []            # ids of ops that executed a call
    if scenario == 'capacity':
        # a few geometry calls, then a filler of n distinct cells that drives any size-bounded cache past
        # its capacity, then the same calls again: short histories from a cold process never evict anything
        sizes = {40: 10, 70: 10, 130: 10, 260: 10, 520: 10, 1030: 12, 2100: 8, 4200: 4}
        if tier == 'thorough':
            sizes.update({8300: 3, 16500: 2, 33000: 1, 66000: 1})
        n = wchoice(rng, sizes)
        head = [_usable_call(g, ctx, 'geo', rng.choice(bases)) for _ in range(rng.randint(1, 3))]
        for c in head:
            ops.append(dict({'op': 'call', 'id': len(ops)}, **c))
            callish.append(len(ops) - 1)
        bulk = {'op': 'bulk', 'id': len(ops), 'kind': wchoice(rng, {'cell_to_lonlat': 5, 'cell_to_boundary': 3, 'lonlat_to_cell': 2}),
                'n': n, 'seed': rng.getrandbits(32)}
        if rng.random() < 0.5:
            # a localised workload (one neighbourhood, one resolution) next to the place the judged calls are about:
            # trains adaptive / locality-driven state, which a spread-out filler keeps resetting
            bp = rng.choice(bases)[0]
            c0 = g._offset(bp, rng.choice([0.0, 2.0, 6.0, 12.0, 20.0]) * rng.random())
            bulk['local'] = [c0[0], c0[1], rng.choice([0.01, 0.5, 2.0, 5.0, 9.0]), rng.choice([0, 1, 3, 6, 10, 10, 14, 20, 28])]
            bulk['kind'] = wchoice(rng, {'lonlat_to_cell': 6, 'cell_to_lonlat': 2, 'cell_to_boundary': 2})
        ops.append(bulk)
        for c in head:
            ops.append({'op': 'repeat', 'id': len(ops), 'f': c['f'], 'a': copy.deepcopy(c['a'])})
            callish.append(len(ops) - 1)
        if bulk.get('local'):
            # ...and probe the surroundings of the trained neighbourhood: points at all distances from it (inside,
            # just outside, the next face), at the filler's resolution and at others
            lc = bulk['local']
            for _ in range(rng.randint(3, 8)):
                d = rng.choice([lc[2] * rng.random(), lc[2] * rng.uniform(1.0, 3.0), rng.uniform(0.0, 50.0), rng.uniform(20.0, 45.0)])
                pt = g._offset((lc[0], lc[1]), d)
                c = mk('lonlat_to_cell', pt, lc[3] if rng.random() < 0.4 else g.res(0, 29))
                if ctx.usable(c) and ctx.oracle(c)['steps'] <= 400_000:
                    ops.append(dict({'op': 'call', 'id': len(ops)}, **c))
                    callish.append(len(ops) - 1)
        L = len(ops) + rng.randint(0, 5)
    follow = None           # (ref) the caller just edited an object of call `ref`: usually it asks the same thing again
    follow_alias = False
    for i in range(len(ops), L):
        kind = wchoice(rng, weights)
        if kind not in ('call', 'bad_call', 'interrupt') and not callish:
            kind = 'call'
        if follow is not None and rng.random() < 0.6 and 'f' in ops[follow]:
            if follow_alias and rng.random() < 0.5:
                # the caller edited a container it had passed and now passes the very same object again
                ops.append({'op': 'alias', 'id': i, 'ref': follow})
            else:
                ops.append({'op': 'repeat', 'id': i, 'f': ops[follow]['f'], 'a': copy.deepcopy(ops[follow]['a'])})
            callish.append(i)
            follow = None
            continue
        follow = None
        follow_alias = False
        op = {'op': kind, 'id': i}
        if script and (kind in ('call', 'repeat', 'alias', 'recycle') and rng.random() < 0.8):
            kind = op['op'] = 'call'
            op.update(script.pop(0))
        elif kind == 'call':
            c = derive(g, ctx, ops, callish) if rng.random() < p_derive else None
            if c is not None and not (ctx.usable(c) and ctx.oracle(c)['steps'] <= 400_000):
                c = None
            op.update(c or _usable_call(g, ctx, mix, rng.choice(bases) if rng.random() < 0.8 else None))
        elif kind == 'bad_call':
            c = bad_call(g, ctx)
            if not ctx.usable(c):
                c = mk('hex_to_u64', 'zz')
            op.update(c)
        elif kind == 'repeat':
            src = ops[rng.choice(callish)]
            if 'f' in src:
                op.update({'f': src['f'], 'a': copy.deepcopy(src['a'])})
            else:
                op['op'] = 'call'
                op.update(_usable_call(g, ctx, mix, None))
        elif kind == 'clock_jump':
            # fault: the clock jumps (seconds to years forward, or wall time stepping back)
            op['dt'] = rng.choice([0.5, 61.0, 3601.0, 86401.0, 400 * 86400.0, -10.0, -7200.0])
            follow = rng.choice(callish)
        elif kind == 'recycle':
            # an earlier call that passed a list or dict; same function, new content
            cands = [j for j in callish if 'f' in ops[j] and any(a[0] in ('L', 'D') for a in ops[j]['a'])]
            if cands:
                j = rng.choice(cands)
                op['ref'] = j
                c = None
                for _ in range(6):
                    c = g.call(mix, rng.choice(bases), fname=ops[j]['f'])
                    if ctx.usable(c) and ctx.oracle(c)['steps'] <= 400_000:
                        break
                    c = None
                if c is None:
                    c = {'f': ops[j]['f'], 'a': copy.deepcopy(ops[j]['a'])}
                op.update(c)
            else:
                op['op'] = kind = 'call'
                op.update(_usable_call(g, ctx, mix, rng.choice(bases)))
        elif kind == 'retype':
            j = rng.choice(callish[-4:]) if rng.random() < 0.6 else rng.choice(callish)
            c = retype_call(rng, ops[j]) if 'f' in ops[j] else None
            if c is None or not ctx.usable(c) or ctx.oracle(c)['steps'] > 400_000:
                # nothing to retype there: a new call with some argument in another type
                c0 = _usable_call(g, ctx, mix, rng.choice(bases))
                c = retype_call(rng, c0)
                if c is None or not ctx.usable(c) or ctx.oracle(c)['steps'] > 400_000:
                    c = c0
                    op['op'] = kind = 'call'
            else:
                follow = j                       # usually the original is asked again right afterwards
            op.update(c)
        elif kind == 'refill':
            # an earlier call that passed a list or dict: the caller writes new content into the same object(s)
            cands = [j for j in callish if 'f' in ops[j] and any(a[0] in ('L', 'D') for a in ops[j]['a'])]
            c = None
            if cands:
                j = rng.choice(cands[-3:]) if rng.random() < 0.6 else rng.choice(cands)
                for _ in range(6):
                    c = g.call(mix, rng.choice(bases), fname=ops[j]['f'])
                    # same container kinds as the earlier call (a point given as a list stays a list)
                    for ai in range(min(len(c['a']), len(ops[j]['a']))):
                        if ops[j]['a'][ai][0] == 'L' and c['a'][ai][0] == 'T':
                            c['a'][ai] = ['L', c['a'][ai][1]]
                    if ctx.usable(c) and ctx.oracle(c)['steps'] <= 400_000:
                        break
                    c = None
            if c is not None:
                op['ref'] = j
                op.update(c)
            else:
                op['op'] = kind = 'call'
                c = _usable_call(g, ctx, mix, rng.choice(bases))
                if c['f'] == 'lonlat_to_cell' and c['a'][0][0] == 'T':
                    c['a'][0] = ['L', c['a'][0][1]]      # a caller-owned coordinate buffer, so that a later refill finds one
                op.update(c)
        elif kind == 'alias':
            op['ref'] = rng.choice(callish)
        elif kind in ('mutate_result', 'mutate_arg'):
            op['ref'] = rng.choice(callish[-3:]) if rng.random() < 0.6 else rng.choice(callish)
            follow = op['ref']
            follow_alias = kind == 'mutate_arg'
            op['how'] = rng.choice(MUT_HOW)
            op['val'] = rng.choice([7, 5, -1, (1 << 63) | 1, 3])
        elif kind == 'interrupt':
            c = _usable_call(g, ctx, mix if rng.random() < 0.5 else 'geo', rng.choice(bases) if rng.random() < 0.8 else None)
            op.update(c)
            o = ctx.oracle(c, gran='ipoint')
            tr = o.get('itrace') or []
            k = rng.randrange(max(1, len(tr)))
            mode = wchoice(rng, {'uniform': 40, 'line': 30, 'hot': 30})
            if mode != 'uniform' and tr:
                # uniform over the distinct source lines that own an interrupt point (all, or only
                # those that touch process-global state), then a random occurrence
                locs = {}
                for j, l in enumerate(tr):
                    if mode == 'line' or l in ctx.hot:
                        locs.setdefault(l, []).append(j)
                if locs:
                    k = rng.choice(locs[rng.choice(sorted(locs))])
            op['k'] = k
            op['exc'] = rng.choice(['KeyboardInterrupt', 'KeyboardInterrupt', 'MemoryError'])
        if op['op'] in ('call', 'repeat', 'bad_call', 'interrupt', 'alias', 'recycle', 'refill', 'retype'):
            callish.append(i)
        ops.append(op)
    return {'ops': ops, 'warm': warm, 'fingerprint': True,
            'conf': {'mix': mix, 'start': start, 'faults': bool(faults), 'len': L, 'scenario': scenario}}


def judge(ctx, spec, out):
    """Post-hoc, op by op.  Returns the first violation or None."""
    for rec in out['recs']:
        if 'outcome' not in rec:
            continue
        call = {'f': rec['f'], 'a': rec['pre']}
        exp = ctx.oracle(call)
        if exp['outcome'][0] == 'abort' or exp['outcome'] == ['exc', 'MemoryError']:
            if rec['outcome'][0] == 'abort':
                break                        # runaway size (only via caller mutation); nothing after it is judged
            continue
        if rec['outcome'][0] == 'abort':
            # the fresh-process call returns within 3M steps, here it ran past 4M
            return {'op_index': rec['i'], 'op_id': rec['id'], 'op': rec['op'], 'f': rec['f'], 'call_repr': call_repr(call),
                    'expected': exp['outcome'], 'observed': rec['outcome'], 'kind': 'did-not-return',
                    'detail': ('did-not-return at op %d: %s blocks forever on a lock/condition left behind by an earlier call'
                               % (rec['i'], call_repr(call))) if rec['outcome'][1] == 'deadlock' else
                              ('did-not-return at op %d: %s needs %d steps in a fresh process, exceeded %d here'
                               % (rec['i'], call_repr(call), exp['steps'], rec['steps']))}
        base = {'op_index': rec['i'], 'op_id': rec['id'], 'op': rec['op'], 'f': rec['f'], 'call_repr': call_repr(call),
                'expected': exp['outcome']}
        interrupted = rec['op'] == 'interrupt' and rec['landed']
        if not interrupted and rec['outcome'] != exp['outcome']:
            e, got = exp['outcome'], rec['outcome']
            if e[0] == 'ok' and got[0] == 'exc':
                kind = 'raised'
            elif e[0] == 'exc' and got[0] == 'exc':
                kind = 'exception-differs'
            else:
                kind = 'wrong-value'
            base.update({'kind': kind, 'observed': got})
            base['detail'] = '%s at op %d: %s: fresh process vs this history: %s' % (kind, rec['i'], call_repr(call, 90), canon.diff_text(e, got))
            return base
        if rec.get('changed_later'):
            ch = rec['changed_later']
            base.update({'kind': 'returned-object-changed-later', 'observed': ['ok', ch['now']], 'expected': ['ok', ch['was']]})
            base['detail'] = ('returned-object-changed-later at op %d: the object returned earlier by %s (op id %s) was changed by %s: %s'
                              % (rec['i'], ch['f'], ch['id'], call_repr(call, 70), canon.diff_text(['ok', ch['was']], ['ok', ch['now']])))
            return base
        if rec['post'] != rec['pre']:
            # also when the call raised or was interrupted: a caller's objects are never the library's to edit
            base.update({'kind': 'argument-modified', 'observed': ['args', rec['post']]})
            base['detail'] = 'argument-modified at op %d: %s left its arguments as %s' % (
                rec['i'], base['call_repr'], ', '.join(canon.show(a, 80) for a in rec['post']))
            return base
    return None


def nontrivial(out):
    """>= 1 call executed on a non-cold cache state or after a fault."""
    n = 0
    for rec in out['recs']:
        if 'outcome' in rec:
            n += 1
            if n >= 2:
                return True
    return False


def run_one(ctx, run_seed, tier, faults, force=None):
    rng = random.Random(run_seed)
    spec = gen_history(ctx, rng, tier, faults, force)
    out = ctx.run_history(spec)
    v = judge(ctx, spec, out)
    recs = out['recs']
    calls = [r for r in recs if 'outcome' in r]
    summ = {
        'seed': run_seed, 'digest': out['digest'], 'state': out.get('state'), 'conf': spec['conf'],
        'ops': len(recs), 'calls': len(calls), 'steps': sum(r['steps'] for r in calls),
        'kinds': {k: sum(1 for r in recs if r['op'] == k) for k in {r['op'] for r in recs}},
        'landed': sum(1 for r in recs if r.get('landed')),
        'landed_locs': sorted({r['loc'] for r in recs if r.get('landed') and r.get('loc')}),
        'mut_applied': sum(1 for r in recs if r.get('applied')),
        'recycled': sum(1 for r in recs if r.get('recycled')),
        'refilled': sum(1 for r in recs if r.get('refilled')),
        'retyped': sum(1 for r in recs if r['op'] == 'retype'),
        'local_bulk': sum(1 for o in spec['ops'] if o.get('op') == 'bulk' and o.get('local')),
        'clock_jumps': out.get('clock_jumps', 0), 'clock_reads': out.get('clock_reads', 0),
        'bulk_calls': sum(r.get('n', 0) for r in recs if r['op'] == 'bulk'),
        'raised': sum(1 for r in calls if r['outcome'][0] == 'exc' and not r.get('landed')),
        'funcs': sorted({r['f'] for r in calls}),
        'probes': out.get('probes') or {},
        'warm_calls': len(spec['warm']),
    }
    return summ, spec, out, v


def sample_of(spec, out):
    ops = []
    for op, rec in zip(spec['ops'], out['recs']):
        if 'f' in rec:
            s = '%s %s' % (rec['op'], call_repr({'f': rec['f'], 'a': rec['pre']}, 50))
            if rec['op'] == 'interrupt':
                s += ' [%s at interrupt point %d%s]' % (op['exc'], op['k'], ', landed at ' + rec['loc'] if rec['landed'] else ', not reached')
            s += ' -> ' + (canon.show(rec['outcome'][1], 60) if rec['outcome'][0] == 'ok' else 'raises ' + rec['outcome'][1])
        else:
            s = '%s ref=%s how=%s applied=%s' % (rec['op'], rec.get('ref'), op.get('how'), rec.get('applied'))
        ops.append(s)
    return {'start': spec['conf']['start'], 'warm_calls': len(spec['warm']), 'ops': ops[:30]}


# ----------------------------------------------------------------------------
# minimisation
# ----------------------------------------------------------------------------

def minimise(ctx, spec, out, viol, max_runs=300, max_s=90.0):
    budget = Budget(max_runs, max_s)
    kind = viol['kind']

    def attempt(s):
        budget.tick()
        o = ctx.run_history(s)
        v = judge(ctx, s, o)
        if v is not None and v['kind'] == kind:
            return o, v
        return None

    state = {'spec': copy.deepcopy(spec), 'out': out, 'v': viol}
    state['spec']['fingerprint'] = False

    def accept(s, got):
        state['spec'], state['out'], state['v'] = s, got[0], got[1]

    # everything after the failing op is irrelevant
    cut = copy.deepcopy(state['spec'])
    cut['ops'] = cut['ops'][:viol['op_index'] + 1]
    got = attempt(cut)
    if got:
        accept(cut, got)

    # warm-up: none, then ddmin
    if state['spec']['warm'] and budget.ok():
        s2 = copy.deepcopy(state['spec'])
        s2['warm'] = []
        got = attempt(s2)
        if got:
            accept(s2, got)
        else:
            def wtest(w):
                s3 = copy.deepcopy(state['spec'])
                s3['warm'] = w
                g3 = attempt(s3)
                if g3:
                    accept(s3, g3)
                    return True
                return False
            ddmin(list(state['spec']['warm']), wtest, budget)

    def otest(ops):
        s3 = copy.deepcopy(state['spec'])
        s3['ops'] = ops
        g3 = attempt(s3)
        if g3:
            accept(s3, g3)
            return True
        return False

    ddmin(list(state['spec']['ops']), otest, budget)

    # simplify single ops: interrupt -> call, repeat/bad_call -> call
    for idx in range(len(state['spec']['ops'])):
        if not budget.ok():
            break
        op = state['spec']['ops'][idx]
        if op['op'] in ('interrupt', 'repeat', 'bad_call', 'recycle', 'retype') and 'f' in op:
            s3 = copy.deepcopy(state['spec'])
            s3['ops'][idx] = {'op': 'call', 'id': op['id'], 'f': op['f'], 'a': op['a']}
            g3 = attempt(s3)
            if g3:
                accept(s3, g3)
    # shrink capacity fillers
    for idx in range(len(state['spec']['ops'])):
        op = state['spec']['ops'][idx]
        while op.get('op') == 'bulk' and op['n'] > 8 and budget.ok():
            s3 = copy.deepcopy(state['spec'])
            s3['ops'][idx]['n'] = op['n'] // 2
            g3 = attempt(s3)
            if not g3:
                break
            accept(s3, g3)
            op = state['spec']['ops'][idx]
    state['spec']['minimiser'] = {'candidate_runs': budget.runs}
    return state['spec'], state['out'], state['v']
