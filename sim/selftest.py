"""Sensitivity self-test: break the property on purpose in a scratch copy of
the current tree, expect the quick tier to report a VIOLATION whose replay
reproduces; negative controls must stay silent.  Never part of a property's
exit status.

  /verif/check selftest [--runs N] [--only name,name]
"""
import os
import sys
import json
import shutil
import tempfile
import subprocess
import time

VERIF = os.path.dirname(os.path.dirname(os.path.abspath(__file__)))
PY = sys.executable

# (name, property, expectation, [(file, old, new), ...], runs)
MUTANTS = [
    ('c16_shared_cross_in_tripleProduct', 'C16', 'violation', [
        ('a5/math/vec3.py', "Vec3 = Union[List[float], Tuple[float, float, float]]\n",
         "Vec3 = Union[List[float], Tuple[float, float, float]]\n_SHARED_CD = [0.0, 0.0, 0.0]\n"),
        ('a5/math/vec3.py', "    crossCD = [0.0, 0.0, 0.0]\n    cross(crossCD, b, c)\n", "    crossCD = _SHARED_CD\n    cross(crossCD, b, c)\n"),
    ], 2400),
    ('c16_placeholder_then_fill_spherical_triangle', 'C16', 'violation', [
        ('a5/projections/dodecahedron.py',
         "        self.spherical_triangles[index] = self._get_spherical_triangle(face_triangle_index, origin_id, reflected)\n        return self.spherical_triangles[index]\n",
         "        tri = self.spherical_triangles[index] = []\n        tri.extend(self._get_spherical_triangle(face_triangle_index, origin_id, reflected))\n        return tri\n"),
    ], 600),
    ('c16_last_cell_memo_in_get_pentagon', 'C16', 'violation', [
        ('a5/core/cell.py', "def _get_pentagon(cell: A5Cell) -> PentagonShape:\n",
         "_last_key = None\n_last_val = None\n\ndef _get_pentagon(cell: A5Cell) -> PentagonShape:\n    global _last_key, _last_val\n"
         "    key = (cell['origin'].id, cell['segment'], cell['S'], cell['resolution'])\n    if key == _last_key and _last_val is not None:\n        return _last_val\n"
         "    _last_key = key\n    _last_val = _get_pentagon_uncached(cell)\n    return _last_val\n\ndef _get_pentagon_uncached(cell: A5Cell) -> PentagonShape:\n"),
    ], 2400),
    ('c16_lock_order_deadlock', 'C16', 'violation', [
        ('a5/core/cell.py', "_dodecahedron = DodecahedronProjection()\n",
         "_dodecahedron = DodecahedronProjection()\nimport threading\n_la = threading.Lock()\n_lb = threading.Lock()\n"),
        ('a5/core/cell.py', "    if cell_id == WORLD_CELL:\n        return (0.0, 0.0)\n\n    cell = deserialize(cell_id)\n    pentagon = _get_pentagon(cell)\n    point = _dodecahedron.inverse(pentagon.get_center(), cell[\"origin\"].id)\n    return to_lonlat(point)\n",
         "    if cell_id == WORLD_CELL:\n        return (0.0, 0.0)\n\n    cell = deserialize(cell_id)\n    with _la:\n        pentagon = _get_pentagon(cell)\n        with _lb:\n            point = _dodecahedron.inverse(pentagon.get_center(), cell[\"origin\"].id)\n    return to_lonlat(point)\n"),
        ('a5/core/cell.py', "    pentagon = _get_pentagon(cell)\n    \n    spherical = from_lonlat(point)\n    projected_point = _dodecahedron.forward(spherical, cell['origin'].id)\n",
         "    with _lb:\n        pentagon = _get_pentagon(cell)\n        with _la:\n            spherical = from_lonlat(point)\n            projected_point = _dodecahedron.forward(spherical, cell['origin'].id)\n"),
    ], 1200),
    ('c16_control_scratch_under_lock', 'C16', 'silent', [
        ('a5/math/vec3.py', "Vec3 = Union[List[float], Tuple[float, float, float]]\n",
         "Vec3 = Union[List[float], Tuple[float, float, float]]\nimport threading\n_SHARED_CD = [0.0, 0.0, 0.0]\n_CD_LOCK = threading.Lock()\n"),
        ('a5/math/vec3.py', "    crossCD = [0.0, 0.0, 0.0]\n    cross(crossCD, b, c)\n    # Return dot product a · (b × c)\n    return dot(a, crossCD)\n",
         "    with _CD_LOCK:\n        crossCD = _SHARED_CD\n        cross(crossCD, b, c)\n        return dot(a, crossCD)\n"),
    ], 600),
    ('c16_control_scratch_thread_local', 'C16', 'silent', [
        ('a5/math/vec3.py', "Vec3 = Union[List[float], Tuple[float, float, float]]\n",
         "Vec3 = Union[List[float], Tuple[float, float, float]]\nimport threading\n_TLS = threading.local()\n"),
        ('a5/math/vec3.py', "    crossCD = [0.0, 0.0, 0.0]\n    cross(crossCD, b, c)\n    # Return dot product a · (b × c)\n",
         "    crossCD = getattr(_TLS, 'cd', None)\n    if crossCD is None:\n        crossCD = _TLS.cd = [0.0, 0.0, 0.0]\n    cross(crossCD, b, c)\n    # Return dot product a · (b × c)\n"),
    ], 600),
    ('c17_memoised_get_res0_cells', 'C17', 'violation', [
        ('a5/core/serialization.py', "    return cell_to_children(WORLD_CELL, 0)\n",
         "    global _RES0\n    if _RES0 is None:\n        _RES0 = cell_to_children(WORLD_CELL, 0)\n    return _RES0\n\n_RES0 = None\n"),
    ], 3000),
    ('c17_options_pop_in_cell_to_boundary', 'C17', 'violation', [
        ('a5/core/cell.py', "    segments = options.get('segments', 'auto')\n", "    segments = options.pop('segments', 'auto')\n"),
    ], 1500),
    ('c17_inplace_sort_in_compact', 'C17', 'violation', [
        ('a5/core/compact.py', "    current_cells = sorted(set(cells))\n", "    cells.sort()\n    current_cells = sorted(set(cells))\n"),
    ], 1500),
    ('c17_cell_to_children_cached_list', 'C17', 'violation', [
        ('a5/core/serialization.py', "    children = []\n    for new_origin in new_origins:\n",
         "    ck = (index, new_resolution)\n    if ck in _CHILD_CACHE:\n        return _CHILD_CACHE[ck]\n    children = _CHILD_CACHE[ck] = []\n    for new_origin in new_origins:\n"),
        ('a5/core/serialization.py', "def cell_to_children(index: int,", "_CHILD_CACHE = {}\n\ndef cell_to_children(index: int,"),
    ], 1500),
    ('c17_placeholder_then_fill_poisoned_by_interrupt', 'C17', 'violation', [
        ('a5/projections/dodecahedron.py',
         "        self.spherical_triangles[index] = self._get_spherical_triangle(face_triangle_index, origin_id, reflected)\n        return self.spherical_triangles[index]\n",
         "        tri = self.spherical_triangles[index] = []\n        tri.extend(self._get_spherical_triangle(face_triangle_index, origin_id, reflected))\n        return tri\n"),
    ], 3000),
    ('c17_spherical_triangle_key_ignores_reflected', 'C17', 'violation', [
        ('a5/projections/dodecahedron.py', "        if reflected:\n            index += 120\n", "        if reflected:\n            index += 0\n"),
    ], 3000),
    ('c17_compact_memo_keyed_by_id', 'C17', 'violation', [
        ('a5/core/compact.py', "    if len(cells) == 0:\n        return []\n",
         "    if len(cells) == 0:\n        return []\n    _k = (id(cells), len(cells))\n    if _k in _MEMO:\n        return list(_MEMO[_k])\n"),
        ('a5/core/compact.py', "    return current_cells\n", "    _MEMO[_k] = list(current_cells)\n    return current_cells\n"),
        ('a5/core/compact.py', "def compact(cells: List[int]) -> List[int]:", "_MEMO = {}\n\ndef compact(cells: List[int]) -> List[int]:"),
    ], 3000),
    ('c16_killed_thread_leaves_torn_memo', 'C16', 'violation', [
        ('a5/projections/dodecahedron.py', "        origin = origins[origin_id]\n\n        # Transform back to origin space\n",
         "        origin = origins[origin_id]\n        _fk = (spherical[0], spherical[1], origin_id)\n        if getattr(self, '_fk', None) == _fk:\n            return self._fv\n        self._fk = _fk\n\n        # Transform back to origin space\n"),
        ('a5/projections/dodecahedron.py', "        return self.polyhedral.forward(unprojected, spherical_triangle, face_triangle)\n",
         "        self._fv = self.polyhedral.forward(unprojected, spherical_triangle, face_triangle)\n        return self._fv\n"),
    ], 1200),
    ('c17_lock_not_released_when_call_is_aborted', 'C17', 'violation', [
        ('a5/projections/polyhedral.py', "        self._inverse_triangle_cache: Dict[Tuple, Dict] = {}\n",
         "        self._inverse_triangle_cache: Dict[Tuple, Dict] = {}\n        import threading\n        self._lk = threading.Lock()\n"),
        ('a5/projections/polyhedral.py', "        cache_key = (tuple(A), tuple(B), tuple(C))\n        \n", "        cache_key = (tuple(A), tuple(B), tuple(C))\n        self._lk.acquire()\n"),
        ('a5/projections/polyhedral.py', "        return self._inverse_triangle_cache[cache_key]\n", "        self._lk.release()\n        return self._inverse_triangle_cache[cache_key]\n"),
    ], 1500),
    ('c16_control_condition_guarded_cache_fill', 'C16', 'silent', [
        ('a5/projections/dodecahedron.py', "        self.gnomonic = GnomonicProjection()\n",
         "        self.gnomonic = GnomonicProjection()\n        import threading\n        self._cv = threading.Condition()\n        self._filling = set()\n        self._sem = threading.BoundedSemaphore(2)\n        self._ready = threading.Event()\n"),
        ('a5/projections/dodecahedron.py',
         "        self.spherical_triangles[index] = self._get_spherical_triangle(face_triangle_index, origin_id, reflected)\n        return self.spherical_triangles[index]\n",
         "        with self._cv:\n            while index in self._filling:\n                self._cv.wait()\n            if self.spherical_triangles[index] is not None:\n                return self.spherical_triangles[index]\n            self._filling.add(index)\n"
         "        val = None\n        try:\n            with self._sem:\n                val = self._get_spherical_triangle(face_triangle_index, origin_id, reflected)\n        finally:\n            with self._cv:\n                if val is not None:\n                    self.spherical_triangles[index] = val\n                self._filling.discard(index)\n                self._cv.notify_all()\n            self._ready.set()\n        self._ready.wait()\n        return val\n"),
    ], 600),
    ('c17_result_depends_on_str_hash_order', 'C17', 'violation', [
        ('a5/core/cell.py', "    point = _dodecahedron.inverse(pentagon.get_center(), cell[\"origin\"].id)\n    return to_lonlat(point)\n",
         "    point = _dodecahedron.inverse(pentagon.get_center(), cell[\"origin\"].id)\n    lon, lat = to_lonlat(point)\n    first = next(iter({'uv', 'vu', 'uw', 'wu', 'vw', 'wv'}))\n    return (lon + (0.0 if first < 'v' else 1e-13), lat)\n"),
    ], 600),
    ('c17_control_idiomatic_with_lock', 'C17', 'silent', [
        ('a5/math/vec3.py', "Vec3 = Union[List[float], Tuple[float, float, float]]\n",
         "Vec3 = Union[List[float], Tuple[float, float, float]]\nimport threading\n_SHARED_CD = [0.0, 0.0, 0.0]\n_CD_LOCK = threading.Lock()\n"),
        ('a5/math/vec3.py', "    crossCD = [0.0, 0.0, 0.0]\n    cross(crossCD, b, c)\n    # Return dot product a · (b × c)\n    return dot(a, crossCD)\n",
         "    with _CD_LOCK:\n        crossCD = _SHARED_CD\n        cross(crossCD, b, c)\n        r = dot(a, crossCD)\n    return r\n"),
    ], 3000),
    ('c17_ttl_cache_rebuilds_differently_after_clock_jump', 'C17', 'violation', [
        ('a5/projections/polyhedral.py', "        if cache_key not in self._inverse_triangle_cache:\n",
         "        import time\n        _now = time.monotonic()\n        _old = self._inverse_triangle_cache.get(cache_key)\n        _expired = _old is not None and _now - _old['t'] > 300.0\n        if _old is None or _expired:\n"),
        ('a5/projections/polyhedral.py', "                'V': vec3.dot(A, c1)  # Triple product of A, B, C\n            }\n",
         "                'V': vec3.dot(A, c1),  # Triple product of A, B, C\n                't': _now\n            }\n            if _expired:\n                constants['area_abc'] = constants['area_abc'] * (1 + 4e-16)\n"),
    ], 3000),
    ('c17_uncompact_returns_reused_result_buffer', 'C17', 'violation', [
        ('a5/core/compact.py', "def uncompact(cells: List[int], target_resolution: int) -> List[int]:", "_OUT: List[int] = []\n\ndef uncompact(cells: List[int], target_resolution: int) -> List[int]:"),
        ('a5/core/compact.py', "        offset += num_children\n\n    return result\n", "        offset += num_children\n\n    _OUT.clear()\n    _OUT.extend(result)\n    return _OUT\n"),
    ], 1500),
    ('c16_control_busy_wait_on_nonblocking_lock', 'C16', 'silent', [
        ('a5/math/vec3.py', "Vec3 = Union[List[float], Tuple[float, float, float]]\n",
         "Vec3 = Union[List[float], Tuple[float, float, float]]\nimport threading\n_SHARED_CD = [0.0, 0.0, 0.0]\n_CD_LOCK = threading.Lock()\n"),
        ('a5/math/vec3.py', "    crossCD = [0.0, 0.0, 0.0]\n    cross(crossCD, b, c)\n    # Return dot product a · (b × c)\n    return dot(a, crossCD)\n",
         "    while not _CD_LOCK.acquire(False):\n        pass\n    try:\n        crossCD = _SHARED_CD\n        cross(crossCD, b, c)\n        return dot(a, crossCD)\n    finally:\n        _CD_LOCK.release()\n"),
    ], 600),
    ('c16_control_lazy_import_inside_call', 'C16', 'silent', [
        ('a5/core/_lazy_tables.py', None, "import math\nTABLE = []\nfor _i in range(40):\n    TABLE.append(math.sin(_i) * 0.0)\nZERO = sum(TABLE)\n"),
        ('a5/core/cell.py', "    if resolution == -1:\n        return WORLD_CELL\n\n    if resolution < FIRST_HILBERT_RESOLUTION:\n",
         "    if resolution == -1:\n        return WORLD_CELL\n    from . import _lazy_tables          # imported on first use\n    assert _lazy_tables.ZERO == 0.0\n\n    if resolution < FIRST_HILBERT_RESOLUTION:\n"),
    ], 600),
]


def apply(root, edits):
    for rel, old, new in edits:
        p = os.path.join(root, rel)
        if old is None:                  # create a new file
            open(p, 'w').write(new)
            continue
        s = open(p).read()
        if old not in s:
            return 'pattern not found in %s' % rel
        s = s.replace(old, new, 1)
        open(p, 'w').write(s)
    return None


def main(args):
    only = set((os.environ.get('SELFTEST_ONLY') or '').split(',')) - {''}
    src = os.path.realpath(args.a5_root)
    results = []
    tmp = tempfile.mkdtemp(prefix='a5sim-selftest-')
    try:
        for name, prop, expect, edits, runs in MUTANTS:
            if only and name not in only:
                continue
            root = os.path.join(tmp, name)
            os.makedirs(root)
            shutil.copytree(os.path.join(src, 'a5'), os.path.join(root, 'a5'),
                            ignore=shutil.ignore_patterns('__pycache__'))
            err = apply(root, edits)
            if err:
                results.append({'mutant': name, 'property': prop, 'status': 'skipped', 'why': err})
                print('%-55s skipped (%s)' % (name, err), flush=True)
                continue
            env = {k: v for k, v in os.environ.items() if k != 'A5SIM_REEXEC'}
            env['A5SIM_REPLAY_DIR'] = os.path.join(tmp, 'replays')
            t0 = time.time()
            p = subprocess.run([PY, os.path.join(VERIF, 'check'), prop, '--tier', 'quick', '--runs', str(args.runs or runs),
                                '--a5-root', root, '--no-evidence'], capture_output=True, text=True, env=env, timeout=3000)
            dt = time.time() - t0
            got = 'violation' if (p.returncode == 1 and 'VIOLATION property=%s' % prop in p.stdout) else \
                  ('silent' if p.returncode == 0 else 'harness-error')
            detail = [l for l in p.stdout.splitlines() if l.startswith('run ') or l.startswith('HARNESS') or l.startswith('minimised')]
            ok = (got == expect)
            results.append({'mutant': name, 'property': prop, 'expected': expect, 'got': got, 'ok': ok,
                            'seconds': round(dt, 1), 'detail': detail[:3]})
            print('%-55s expected %-9s got %-13s %s %5.0fs  %s' % (name, expect, got, 'OK ' if ok else 'BAD', dt,
                                                                   (detail[0][:160] if detail else '')), flush=True)
            shutil.rmtree(root, ignore_errors=True)
    finally:
        shutil.rmtree(tmp, ignore_errors=True)
    # (not under evidence/: that directory holds only the per-property evidence files of the schema)
    with open(os.path.join(VERIF, 'seeded', 'selftest_last.json'), 'w') as f:
        json.dump({'results': results}, f, indent=1)
    bad = [r for r in results if r.get('ok') is False]
    print('selftest: %d mutants, %d as expected, %d not, %d skipped' % (
        len(results), sum(1 for r in results if r.get('ok')), len(bad), sum(1 for r in results if r.get('status') == 'skipped')))
    return 1 if bad else 0
