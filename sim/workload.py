"""Seeded workload generation for both properties.

Arguments come from the seed and from oracle outputs only: the generating
process never calls a5 itself (ctx.value() forks a cold oracle).  Everything
is drawn from the one random.Random handed in.
"""
import math

from . import canon

PUBLIC = ['lonlat_to_cell', 'cell_to_lonlat', 'cell_to_boundary', 'cell_to_parent',
          'cell_to_children', 'get_resolution', 'get_res0_cells', 'get_num_cells',
          'cell_area', 'compact', 'uncompact', 'hex_to_u64', 'u64_to_hex']

MIXES = {
    'forward': {'lonlat_to_cell': 1},
    'inverse': {'cell_to_lonlat': 1},
    'boundary': {'cell_to_boundary': 1},
    'geo': {'lonlat_to_cell': 3, 'cell_to_lonlat': 3, 'cell_to_boundary': 3},
    'all': {'lonlat_to_cell': 6, 'cell_to_lonlat': 6, 'cell_to_boundary': 6, 'cell_to_parent': 2,
            'cell_to_children': 2, 'get_resolution': 1, 'get_res0_cells': 1, 'get_num_cells': 1,
            'cell_area': 1, 'compact': 2, 'uncompact': 2, 'hex_to_u64': 1, 'u64_to_hex': 1},
    'coarse': {'get_res0_cells': 2, 'cell_to_children': 5, 'uncompact': 4, 'cell_to_parent': 1, 'compact': 2,
               'get_resolution': 1, 'cell_to_lonlat': 2, 'cell_to_boundary': 4},
    'hier': {'cell_to_parent': 2, 'cell_to_children': 3, 'get_resolution': 1, 'get_res0_cells': 2,
             'compact': 3, 'uncompact': 3, 'hex_to_u64': 1, 'u64_to_hex': 1, 'get_num_cells': 1, 'cell_area': 1},
}


def res_of(c):
    """Resolution by the documented marker-bit rule.  Used only to keep
    generated workloads bounded (never as an oracle): if the layout changed
    this would merely produce other, still legitimate, inputs."""
    if not isinstance(c, int) or c <= 0:
        return -1
    tz = (c & -c).bit_length() - 1
    R = 58 - tz
    if R <= 0:
        return -1
    if R <= 2:
        return R - 1
    return min(30, (R - 1) // 2 + 1)


def mk(f, *args):
    return {'f': f, 'a': [canon.enc(a) for a in args]}


def call_repr(call, limit=200):
    return '%s(%s)' % (call['f'], ', '.join(canon.show(a, limit) for a in call['a']))


def call_key(call):
    return call['f'] + canon.key(call['a'])


def wchoice(rng, weights):
    items = sorted(weights.items())
    tot = sum(w for _, w in items)
    x = rng.random() * tot
    for k, w in items:
        x -= w
        if x < 0:
            return k
    return items[-1][0]


class Gen:
    def __init__(self, rng, ctx):
        self.rng = rng
        self.ctx = ctx
        self.frame = ctx.frame()          # dict: centres, vertices, edges (lon/lat degrees)

    # ---- resolutions -------------------------------------------------------
    def res(self, lo=0, hi=30):
        r = self.rng
        x = r.random()
        if x < 0.45:
            v = r.randint(0, 8)
        elif x < 0.8:
            v = r.randint(9, 20)
        else:
            v = r.randint(21, 30)
        return max(lo, min(hi, v))

    def any_res(self):
        if self.rng.random() < 0.08:
            return self.rng.choice([-2, -1, -1, 31, 32, 30, 29])
        return self.res()

    # ---- points ----------------------------------------------------------------
    def _offset(self, p, mag):
        ang = self.rng.random() * 2 * math.pi
        lat = max(-90.0, min(90.0, p[1] + mag * math.sin(ang)))
        c = max(1e-6, math.cos(math.radians(p[1])))
        return (p[0] + mag * math.cos(ang) / c if abs(p[1]) < 89.9 else p[0] + mag * math.cos(ang), lat)

    def point(self, kind=None):
        r = self.rng
        if kind is None:
            kind = wchoice(r, {'uniform': 35, 'frame': 25, 'edge': 22, 'pole': 6, 'wrap': 6, 'special': 6})
        if kind == 'uniform':
            return (r.uniform(-180.0, 180.0), math.degrees(math.asin(r.uniform(-1.0, 1.0))))
        if kind == 'frame':
            fr = self.frame
            base = r.choice(fr['centres'] + fr['vertices'] + fr['midpoints'])
            return self._offset(base, 10 ** r.uniform(-12, 0.3))
        if kind == 'edge':
            a, b = r.choice(self.frame['edges'])
            t = r.random()
            p = (a[0] + (b[0] - a[0]) * t, a[1] + (b[1] - a[1]) * t)
            return self._offset(p, 10 ** r.uniform(-10, 0.5))
        if kind == 'pole':
            s = r.choice([-1.0, 1.0])
            lat = s * (90.0 - (0.0 if r.random() < 0.2 else 10 ** r.uniform(-12, 0.5)))
            return (r.uniform(-180.0, 180.0), lat)
        if kind == 'wrap':
            return (r.uniform(-540.0, 540.0), r.uniform(-90.0, 90.0))
        return r.choice([(0.0, 0.0), (180.0, 0.0), (-180.0, 0.0), (-93.0, 90.0), (87.0, -90.0),
                         (0.0, 90.0), (-0.0, -0.0), (360.0, 45.0), (179.99999999, 0.1), (-93.0, 26.565051177)])

    def near(self, p, res):
        """A point within a few cell widths of p at resolution res."""
        width = 70.0 / (2 ** max(0, res))
        return self._offset(p, width * self.rng.uniform(0.0, 3.0))

    # ---- cells -------------------------------------------------------------------
    def cell_at(self, p, res):
        v = self.ctx.value(mk('lonlat_to_cell', p, res))
        return v if isinstance(v, int) else 0

    def synth_cell(self):
        r = self.rng
        res = self.res(0, 29)
        if res == 0:
            return (r.randrange(12) << 58) | (1 << 57)
        top = r.randrange(60)
        if res == 1:
            return (top << 58) | (1 << 56)
        levels = res - 1
        style = r.randrange(4)
        if style == 0:
            S = 0
        elif style == 1:
            S = (1 << (2 * levels)) - 1
        elif style == 2:
            S = int('1' * levels, 4) * r.choice([1, 2])
        else:
            S = r.getrandbits(2 * levels)
        return (top << 58) | (S << (58 - 2 * levels)) | (1 << (58 - 2 * levels - 1))

    def weird_cell(self):
        r = self.rng
        return r.choice([0, 1, 2, 3, (1 << 64) - 1, 63 << 58, (61 << 58) | (1 << 56), 1 << 63,
                         r.getrandbits(64), r.getrandbits(64) | 1, -1, -(1 << 57), (12 << 58) | (1 << 57)])

    def coarse_cell(self):
        """The world cell, a resolution-0 cell or a resolution-1 cell (the special, non-Hilbert levels)."""
        r = self.rng
        x = r.random()
        if x < 0.2:
            return 0
        if x < 0.65:
            return (r.randrange(12) << 58) | (1 << 57)
        return (r.randrange(60) << 58) | (1 << 56)

    def coarse_call(self, f):
        r = self.rng
        c = self.coarse_cell()
        cr = res_of(c)
        if f == 'cell_to_children':
            if r.random() < 0.3:
                return mk(f, c)
            return mk(f, c, min(3, max(cr, 0) + r.randint(0, 2)) if cr >= 0 else r.choice([0, 0, 1]))
        if f == 'uncompact':
            lst = [self.coarse_cell() for _ in range(r.randint(1, 3))]
            if 0 in lst:
                return mk(f, [0] if r.random() < 0.7 else lst[:1] + [0], r.choice([0, 0, 1]))
            top = max(res_of(x) for x in lst)
            return mk(f, lst, min(3, top + r.randint(0, 2)))
        if f == 'compact':
            ch = self.ctx.value(mk('cell_to_children', c, min(2, max(cr, 0) + 1) if cr >= 0 else 0)) or []
            ch = list(ch)
            if r.random() < 0.3 and len(ch) > 1:
                del ch[r.randrange(len(ch))]
            r.shuffle(ch)
            return mk(f, ch)
        if f == 'cell_to_parent':
            return mk(f, c) if r.random() < 0.5 else mk(f, c, r.randint(-1, max(-1, cr)))
        if f == 'cell_to_boundary':
            return mk(f, c, {'segments': 1}) if r.random() < 0.4 else mk(f, c, *self.boundary_options())
        if f == 'get_res0_cells':
            return mk(f)
        return mk(f, c)

    def cell(self, base=None):
        """base = (point, res) anchor or None."""
        r = self.rng
        x = r.random()
        if x < 0.07:
            return self.coarse_cell()
        if x < 0.10:
            return self.weird_cell()
        if x < 0.20:
            return self.synth_cell()
        if base is not None and x < 0.8:
            p, res = base
            c = self.cell_at(self.near(p, res) if r.random() < 0.7 else p, res)
        else:
            c = self.cell_at(self.point(), self.res())
        y = r.random()
        if y < 0.12 and c:
            cr = res_of(c)
            if cr > 0:
                c2 = self.ctx.value(mk('cell_to_parent', c, r.randint(0, cr - 1)))
                if isinstance(c2, int):
                    c = c2
        elif y < 0.2 and c:
            ch = self.ctx.value(mk('cell_to_children', c))
            if isinstance(ch, list) and ch:
                c = r.choice(ch)
        return c

    def cell_res(self, c):
        return res_of(c)

    # ---- argument builders -----------------------------------------------------------
    def boundary_options(self):
        r = self.rng
        x = r.random()
        if x < 0.3:
            return ()                         # omitted
        if x < 0.38:
            return (None,)
        if x < 0.45:
            return ({},)
        o = {}
        cr = r.choice(['absent', True, False])
        if cr != 'absent':
            o['closed_ring'] = cr
        sg = r.choice(['absent', None, 'auto', 1, 2, 3, 7, 16])
        if sg != 'absent':
            o['segments'] = sg
        return (o,)

    def staircase(self, base=None):
        """The shape compact() output has for a region with a hole: walking down from a cell, at every level the
        siblings of the path are kept -- 3 cells at each of d consecutive resolutions."""
        r = self.rng
        c = self.cell(base)
        cr = res_of(c)
        if not (2 <= cr <= 22):
            c = self.cell_at(self.point(), r.randint(2, 12))
            cr = res_of(c)
        out = []
        cur = c
        for _ in range(r.randint(3, 6)):
            ch = self.ctx.value(mk('cell_to_children', cur))
            if not isinstance(ch, list) or len(ch) < 2:
                break
            ch = list(ch)
            nxt = r.choice(ch)
            out.extend(x for x in ch if x != nxt)
            cur = nxt
        if r.random() < 0.5:
            out.append(cur)
        if r.random() < 0.7:
            r.shuffle(out)
        return out or [c]

    def cell_list(self, base=None):
        """A list for compact/uncompact: descendants of a few cells, shuffled,
        duplicated, with holes, mixed resolutions."""
        r = self.rng
        if r.random() < 0.2:
            return self.staircase(base)
        out = []
        for _ in range(r.randint(1, 3)):
            c = self.cell(base)
            cr = self.cell_res(c)
            if r.random() < 0.7 and -1 <= cr < 29:
                depth = r.randint(1, 3 if cr >= 1 else 1)
                ch = self.ctx.value(mk('cell_to_children', c, min(30, max(cr, 0) + depth if cr >= 0 else 0)))
                if isinstance(ch, list):
                    ch = list(ch)
                    if r.random() < 0.4 and len(ch) > 1:
                        del ch[r.randrange(len(ch))]
                    out.extend(ch)
                else:
                    out.append(c)
            else:
                out.append(c)
        if r.random() < 0.3 and out:
            out.extend(r.sample(out, min(len(out), r.randint(1, 3))))
        if r.random() < 0.8:
            r.shuffle(out)
        if r.random() < 0.05:
            out = []
        return out[:400]

    def hex_string(self, base=None):
        r = self.rng
        c = self.cell(base)
        h = '%x' % (c & ((1 << 64) - 1))
        x = r.random()
        if x < 0.5:
            return h
        if x < 0.65:
            return h.upper()
        if x < 0.75:
            return '0x' + h
        if x < 0.85:
            return h.rjust(16, '0')
        if x < 0.9:
            return ' ' + h + '\n'
        return r.choice(['', 'zz', '0x', 'g123', '-1f', '1_0', '１２'])

    # ---- one call ----------------------------------------------------------------------
    def call(self, mix='all', base=None, fname=None):
        r = self.rng
        f = fname or wchoice(r, MIXES[mix])
        if mix == 'coarse' and f != 'lonlat_to_cell':
            return self.coarse_call(f)
        if f == 'lonlat_to_cell':
            if base is not None and r.random() < 0.75:
                p, res = base
                p = self.near(p, res) if r.random() < 0.8 else p
                res = res if r.random() < 0.8 else self.any_res()
            else:
                p, res = self.point(), self.any_res()
            x = r.random()
            if x < 0.12:
                p = list(p)                       # a caller-owned, mutable coordinate pair
            elif x < 0.15:
                p = (int(p[0]), int(p[1]))        # ints instead of floats
            return mk(f, p, res)
        if f == 'cell_to_lonlat':
            return mk(f, self.cell(base))
        if f == 'cell_to_boundary':
            return mk(f, self.cell(base), *self.boundary_options())
        if f == 'get_resolution' or f == 'u64_to_hex':
            return mk(f, self.cell(base))
        if f == 'get_res0_cells':
            return mk(f)
        if f in ('get_num_cells', 'cell_area'):
            return mk(f, r.randint(-2, 32))
        if f == 'cell_to_parent':
            c = self.cell(base)
            if r.random() < 0.4:
                return mk(f, c)
            cr = self.cell_res(c)
            return mk(f, c, r.randint(-2, 31) if r.random() < 0.15 else r.randint(-1, max(-1, cr)))
        if f == 'cell_to_children':
            c = self.cell(base)
            cr = self.cell_res(c)
            if r.random() < 0.4 and cr < 30:
                return mk(f, c)
            x = r.random()
            if x < 0.1:
                return mk(f, c, r.choice([cr - 1, cr - 3, 31, 40]))       # raises
            lo = max(cr, 0)
            return mk(f, c, min(30, lo + r.randint(0, 3 if cr >= 1 else 1)))
        if f == 'compact':
            lst = self.cell_list(base)
            return mk(f, tuple(lst) if r.random() < 0.08 else lst)
        if f == 'uncompact':
            lst = self.cell_list(base)
            rs = [res_of(c) for c in lst] or [0]
            top = max(rs)
            if r.random() < 0.12:
                return mk(f, lst, top - r.randint(1, 3))                  # usually raises
            # keep the expansion bounded: only cells within 3 levels of the target
            target = min(30, top + r.randint(0, 2))
            if r.random() < 0.9:
                lst = [c for c in lst if res_of(c) >= max(1, target - 3)][:16]
            else:
                lst = [c for c in lst if res_of(c) >= max(0, target - 2)][:12]
            return mk(f, lst, target)
        if f == 'hex_to_u64':
            return mk(f, self.hex_string(base))
        raise ValueError(f)

    def base(self, kind=None):
        """An anchor (point, resolution) for locality-controlled workloads."""
        return (self.point(kind), self.res(0, 24))
