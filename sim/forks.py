"""Process seam: every simulated run ("node") and every reference call
("oracle") executes in a fresh os.fork() of a process that has imported a5 and
never called it.  The child reports one pickled object through a pipe and
_exit()s; nothing leaks from run to run.
"""
import os
import sys
import pickle
import select
import signal
import time
import faulthandler

_monotonic, _sleep = time.monotonic, time.sleep      # the real clock, whatever the simulation installs later


# optional hooks run in the parent around os.fork() (set by ctx: the synchronisation seam must be
# in place while at-fork handlers of the library run in the child)
before_fork = None
after_fork_in_parent = None


class NodeTimeout(Exception):
    pass


class NodeCrash(Exception):
    pass


def fork_call(fn, args=(), wall_timeout=120.0):
    """Run fn(*args) in a forked child; return its result.

    Raises NodeTimeout if the child exceeds wall_timeout (never converted into
    a pass or a violation by callers), NodeCrash if it died without reporting.
    """
    r, w = os.pipe()
    sys.stdout.flush()
    sys.stderr.flush()
    if before_fork is not None:
        before_fork()
    try:
        pid = os.fork()
    except BaseException:
        if after_fork_in_parent is not None:
            after_fork_in_parent()
        raise
    if pid != 0 and after_fork_in_parent is not None:
        after_fork_in_parent()
    if pid == 0:
        # ---- child ----
        code = 0
        try:
            os.close(r)
            # a5's diagnostic print() must not forge output lines of the check
            devnull = os.open(os.devnull, os.O_WRONLY)
            os.dup2(devnull, 1)
            # no dump_traceback_later here: its watchdog thread does not survive fork and
            # re-arming it in a forked child deadlocks; the parent sends SIGUSR1 before killing
            faulthandler.register(signal.SIGUSR1, file=sys.stderr, all_threads=True)
            try:
                out = ('ok', fn(*args))
            except BaseException as e:  # harness error inside the child
                import traceback
                out = ('err', '%s: %s\n%s' % (type(e).__name__, e, traceback.format_exc()))
            data = pickle.dumps(out, protocol=4)
            with os.fdopen(w, 'wb', closefd=True) as f:
                f.write(data)
        except BaseException:
            code = 70
        finally:
            os._exit(code)
    # ---- parent ----
    os.close(w)
    chunks = []
    deadline = _monotonic() + wall_timeout
    timed_out = False
    try:
        while True:
            left = deadline - _monotonic()
            if left <= 0:
                timed_out = True
                break
            ready, _, _ = select.select([r], [], [], left)
            if not ready:
                timed_out = True
                break
            b = os.read(r, 1 << 16)
            if not b:
                break
            chunks.append(b)
    finally:
        os.close(r)
    if timed_out:
        try:
            os.kill(pid, signal.SIGUSR1)       # dump the child's Python stacks to stderr
            _sleep(0.3)
            os.kill(pid, signal.SIGKILL)
        except ProcessLookupError:
            pass
        os.waitpid(pid, 0)
        raise NodeTimeout('child exceeded %.0fs wall clock' % wall_timeout)
    _, status = os.waitpid(pid, 0)
    data = b''.join(chunks)
    if not data:
        raise NodeCrash('child died without reporting (status %d)' % status)
    kind, val = pickle.loads(data)
    if kind == 'err':
        raise NodeCrash('exception in child harness code:\n' + val)
    return val
