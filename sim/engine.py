"""The simulator: sys.monitoring seam, baton-passing thread scheduler with
seeded plans (C16), and the history driver with interrupt injection (C17).

Everything in this module runs inside a *node* (a forked child, see forks.py).
All of a5 runs as real code; the simulator owns only
  (i)   which thread runs at each step (a step = one LINE or INSTRUCTION
        event of code under <root>/a5/),
  (ii)  whether an exception is injected at a step,
  (iii) what the simulated caller does between calls.
"""
import os
import sys
import random
import hashlib
import _thread
import threading

from . import canon

mon = sys.monitoring

_real_allocate_lock = _thread.allocate_lock
_real_rlock = _thread.RLock

import time as _time_mod
_real_time = {n: getattr(_time_mod, n) for n in ('time', 'monotonic', 'perf_counter', 'process_time', 'time_ns',
                                                  'monotonic_ns', 'perf_counter_ns', 'sleep')}


class SimClock:
    """The only clock simulated code can read.  Starts at the same instant in every node and oracle,
    advances 1 microsecond per a5 step, and jumps when the simulator says so (fault: clock skew / jump)."""
    EPOCH = 1_800_000_000.0

    def __init__(self):
        self.active = False
        self.reset()

    def reset(self):
        self.steps = 0
        self.wall_jump = 0.0
        self.mono_jump = 0.0
        self.reads = 0
        self.jumps = 0

    def jump(self, dt):
        self.jumps += 1
        self.wall_jump += dt                 # wall time may go backwards
        if dt > 0:
            self.mono_jump += dt             # monotonic clocks never do

    def wall(self):
        self.reads += 1
        return self.EPOCH + self.steps * 1e-6 + self.wall_jump

    def mono(self):
        self.reads += 1
        return 1000.0 + self.steps * 1e-6 + self.mono_jump


clock = SimClock()


def _mk_time(name, simfn):
    real = _real_time[name]

    def f(*a):
        if clock.active:
            return simfn(*a)
        return real(*a)
    f.__name__ = name
    return f


def _sim_sleep(secs=0):
    clock.reads += 1
    if secs and secs > 0:
        clock.jump(float(secs))             # sleeping costs simulated time only
    s = _in_sim()
    if s is not None:
        s.yield_now()


_SIM_TIME = {
    'time': _mk_time('time', lambda: clock.wall()),
    'monotonic': _mk_time('monotonic', lambda: clock.mono()),
    'perf_counter': _mk_time('perf_counter', lambda: clock.mono()),
    'process_time': _mk_time('process_time', lambda: clock.steps * 1e-6),
    'time_ns': _mk_time('time_ns', lambda: int(clock.wall() * 1e9)),
    'monotonic_ns': _mk_time('monotonic_ns', lambda: int(clock.mono() * 1e9)),
    'perf_counter_ns': _mk_time('perf_counter_ns', lambda: int(clock.mono() * 1e9)),
    'sleep': _mk_time('sleep', _sim_sleep),
}


def patch_time():
    """Clock seam: while a5 is imported and inside node/oracle children, the time module's clock functions are
    wrappers that answer from the simulated clock while a simulation is active and from the real one otherwise."""
    for n, f in _SIM_TIME.items():
        setattr(_time_mod, n, f)


def unpatch_time():
    for n, f in _real_time.items():
        setattr(_time_mod, n, f)


# --------------------------------------------------------------------------
# the seam
# --------------------------------------------------------------------------

class Seam:
    """Global LINE/INSTRUCTION monitoring restricted to code under <root>/a5/.

    The callback returns DISABLE for every foreign code location, so only a5
    code pays, and every a5 code object (nested lambdas, lazily imported
    modules, code added by a later change) is covered without enumerating it.
    """

    def __init__(self, a5_root, gran='line'):
        self.prefix = os.path.join(os.path.realpath(a5_root), 'a5') + os.sep
        self.gran = gran
        self.handler = None
        self.ihandler = None
        self.tool = None
        self.foreign = 0
        self._lines = {}

    def install(self, ipoints=False):
        """ipoints=True additionally delivers *interrupt points* to self.ihandler:
        the places where this interpreter checks its eval breaker, i.e. where an
        asynchronous exception (signal -> KeyboardInterrupt) can really surface
        and where a thread switch really happens: function entry (PY_START),
        return from a C call (C_RETURN), and backward jumps (JUMP)."""
        for tid in (4, 3, 5, 2):
            if mon.get_tool(tid) is None:
                break
        else:
            raise RuntimeError('no free sys.monitoring tool id')
        mon.use_tool_id(tid, 'a5sim')
        self.tool = tid
        E = mon.events
        ev = E.LINE if self.gran == 'line' else E.INSTRUCTION
        mon.register_callback(tid, ev, self._cb)
        if ipoints:
            mon.register_callback(tid, E.PY_START, self._icb)
            mon.register_callback(tid, E.C_RETURN, self._icb_c)
            mon.register_callback(tid, E.JUMP, self._icb_j)
            ev |= E.PY_START | E.CALL | E.JUMP          # C_RETURN is delivered when CALL is enabled
        self.events = ev
        mon.set_events(tid, ev)

    def _icb(self, code, off):
        if not code.co_filename.startswith(self.prefix):
            return mon.DISABLE
        h = self.ihandler
        if h is not None:
            h(code, off)

    def _icb_c(self, code, off, callable_, arg0):
        if not code.co_filename.startswith(self.prefix):
            return None                                  # (C_RETURN cannot be disabled per location)
        h = self.ihandler
        if h is not None:
            h(code, off)

    def _icb_j(self, code, off, dest):
        if not code.co_filename.startswith(self.prefix):
            return mon.DISABLE
        if dest < off:
            h = self.ihandler
            if h is not None:
                h(code, off)

    def iloc(self, code, off):
        """'rel/path.py:line' of an interrupt point (off is a bytecode offset)."""
        g, self.gran = self.gran, 'instr'
        try:
            return '%s:%d' % (code.co_filename[len(self.prefix):], self.line_of(code, off))
        finally:
            self.gran = g

    def uninstall(self):
        if self.tool is not None:
            mon.set_events(self.tool, 0)
            mon.free_tool_id(self.tool)
            self.tool = None

    def _cb(self, code, pos):
        if not code.co_filename.startswith(self.prefix):
            self.foreign += 1
            return mon.DISABLE
        h = self.handler
        if h is not None:
            h(code, pos)

    def line_of(self, code, pos):
        """Source line of an event position (LINE: pos is the line; INSTRUCTION: pos is a bytecode offset)."""
        if self.gran == 'line':
            return pos
        tab = self._lines.get(id(code))
        if tab is None:
            import dis
            starts = sorted((off, ln) for off, ln in dis.findlinestarts(code) if ln is not None)
            tab = self._lines[id(code)] = ([o for o, _ in starts], [l for _, l in starts], code)
        import bisect
        i = bisect.bisect_right(tab[0], pos) - 1
        return tab[1][i] if i >= 0 else code.co_firstlineno

    def loc(self, code, pos):
        return '%s:%d' % (code.co_filename[len(self.prefix):], self.line_of(code, pos))


# --------------------------------------------------------------------------
# calling the public API
# --------------------------------------------------------------------------

_EXC = {'KeyboardInterrupt': KeyboardInterrupt, 'MemoryError': MemoryError}


class SimAbort(BaseException):
    """Raised inside a simulated thread when the run is being torn down."""


def apply_call(a5mod, fname, args):
    """Execute one public call on already-decoded argument objects.
    Returns (outcome, value-object-or-None); outcome = ['ok', enc] | ['exc', typename]."""
    try:
        v = getattr(a5mod, fname)(*args)
    except SimAbort:
        raise
    except BaseException as e:
        return ['exc', type(e).__name__], None
    return ['ok', canon.enc(v)], v


def solo_call(a5mod, seam, call, want_trace=False, cap=3_000_000):
    """The oracle body: one call, alone, cold, single-threaded; counts steps.
    A call that exceeds `cap` steps is abandoned (outcome ['abort', 'cap']):
    the workload generator then discards it."""
    counter = [0]
    trace = [] if want_trace else None
    if want_trace:
        def h(code, pos):
            counter[0] += 1
            clock.steps += 1
            if counter[0] > cap:
                raise SimAbort()
            trace.append(seam.loc(code, pos))
    else:
        def h(code, pos):
            counter[0] += 1
            clock.steps += 1
            if counter[0] > cap:
                raise SimAbort()
    global _history_mode
    _history_mode = True                 # one thread only: a blocking wait can never be satisfied
    clock.reset()
    clock.active = True
    itrace = []

    def ih(code, off):
        itrace.append(seam.iloc(code, off))

    args = [canon.dec(a) for a in call['a']]
    seam.handler = h
    seam.ihandler = ih
    try:
        outcome, _ = apply_call(a5mod, call['f'], args)
    except SimAbort:
        outcome = ['abort', 'cap']
    finally:
        seam.handler = None
        seam.ihandler = None
    post = [canon.enc(a) for a in args]
    return {'outcome': outcome, 'steps': counter[0], 'args_kept': post == call['a'], 'trace': trace,
            'isteps': len(itrace), 'itrace': itrace}


def bulk_calls(a5mod, seam, kind, n, seed, local=None):
    """Capacity filler: n calls about n distinct pseudo-random cells (or points), unjudged and at full
    speed (monitoring is switched off meanwhile).  It exists to drive size-bounded caches past their
    capacity, which short histories from a cold process never do.  With local = [lon, lat, radius_deg,
    resolution] the n calls are a *localised* workload instead: points within that radius of one place,
    indexed at one resolution (kind lonlat_to_cell) or indexed and then looked up again through
    kind -- the pattern that trains adaptive / locality-driven structures (hints, last-face memos,
    hit counters), which spread-out fillers keep resetting."""
    import math
    r = random.Random(seed)
    if local is not None:
        return _bulk_local(a5mod, seam, kind, n, r, local)
    tool = seam.tool
    if tool is not None:
        mon.set_events(tool, 0)
    done = 0
    try:
        for _ in range(n):
            try:
                if kind == 'lonlat_to_cell':
                    a5mod.lonlat_to_cell((r.uniform(-180.0, 180.0), math.degrees(math.asin(r.uniform(-1.0, 1.0)))), r.randint(2, 24))
                else:
                    res = r.randint(10, 29)          # fine enough that the n cells are distinct
                    levels = res - 1
                    c = (r.randrange(60) << 58) | (r.getrandbits(2 * levels) << (58 - 2 * levels)) | (1 << (58 - 2 * levels - 1))
                    if kind == 'cell_to_boundary':
                        a5mod.cell_to_boundary(c, {'segments': 1})
                    else:
                        a5mod.cell_to_lonlat(c)
                done += 1
            except SimAbort:
                raise
            except BaseException:
                pass
    finally:
        if tool is not None:
            mon.set_events(tool, getattr(seam, 'events', 0))
    return done


def _bulk_local(a5mod, seam, kind, n, r, local):
    import math
    lon0, lat0, rad, res = local
    tool = seam.tool
    if tool is not None:
        mon.set_events(tool, 0)
    done = 0
    try:
        while done < n:
            try:
                ang = r.random() * 2 * math.pi
                d = rad * math.sqrt(r.random())
                lat = max(-90.0, min(90.0, lat0 + d * math.sin(ang)))
                lon = lon0 + d * math.cos(ang) / max(0.05, math.cos(math.radians(lat0)))
                c = a5mod.lonlat_to_cell((lon, lat), res)
                done += 1
                if kind == 'cell_to_boundary':
                    a5mod.cell_to_boundary(c, {'segments': 1})
                    done += 1
                elif kind == 'cell_to_lonlat':
                    a5mod.cell_to_lonlat(c)
                    done += 1
            except SimAbort:
                raise
            except BaseException:
                done += 1
    finally:
        if tool is not None:
            mon.set_events(tool, getattr(seam, 'events', 0))
    return done


def _solo_outcome(a5mod, call):
    global _history_mode
    _history_mode = True                 # quiescent node: one thread only
    args = [canon.dec(a) for a in call['a']]
    try:
        outcome, _ = apply_call(a5mod, call['f'], args)
    except SimAbort:
        outcome = ['abort', 'deadlock']  # blocks forever on a primitive left behind by the threads
    finally:
        _history_mode = False
    return outcome


def post_quiescence(a5mod, threads):
    """After the last thread has ended: (a) every distinct call of the run is
    issued as the *first* call after quiescence, each in its own fork of the
    quiescent node, so a poisoned entry left for any one of them is seen
    whatever the others would heal; (b) then all calls once more, sequentially,
    in this process.  Returns (post_first, post_seq) shaped like `threads`."""
    from . import forks
    memo = {}
    first = []
    for tc in threads:
        row = []
        for call in tc:
            k = call['f'] + canon.key(call['a'])
            if k not in memo:
                memo[k] = forks.fork_call(_solo_outcome, (a5mod, call), 120.0)
            row.append(memo[k])
        first.append(row)
    seq = [[_solo_outcome(a5mod, call) for call in tc] for tc in threads]
    return first, seq


def run_seq_node(a5mod, seam, spec):
    """Single-threaded execution of the run's calls in a given merged order
    (used to ask whether an observation is sequentially explainable).  An
    injected 'kill' fault is applied at the same per-thread step."""
    global _history_mode
    _history_mode = True
    clock.reset()
    clock.active = True
    for call in spec.get('warm', []):
        apply_call(a5mod, call['f'], [canon.dec(a) for a in call['a']])
    if spec.get('bulk'):
        b = spec['bulk']
        bulk_calls(a5mod, seam, b['kind'], b['n'], b['seed'], b.get('local'))
    res = [[None] * len(tc) for tc in spec['threads']]
    idx = [0] * len(spec['threads'])
    tsteps = [0] * len(spec['threads'])
    kill = [spec.get('kill')]
    cur = [0]

    def ihandler(code, off):
        t = cur[0]
        k = kill[0]
        if k is not None and k['t'] == t and tsteps[t] == k['k']:
            kill[0] = None
            tsteps[t] += 1
            raise _EXC[k['exc']]('injected by simulator')
        tsteps[t] += 1

    for t in spec['order']:
        call = spec['threads'][t][idx[t]]
        args = [canon.dec(a) for a in call['a']]
        cur[0] = t
        seam.ihandler = ihandler
        try:
            outcome, _ = apply_call(a5mod, call['f'], args)
        finally:
            seam.ihandler = None
        res[t][idx[t]] = [outcome, [canon.enc(a) for a in args] == call['a']]
        idx[t] += 1
    post, post_seq = post_quiescence(a5mod, spec['threads'] + ([spec['probes']] if spec.get('probes') else []))
    return {'results': res, 'post': post, 'post_seq': post_seq}


# --------------------------------------------------------------------------
# plans
# --------------------------------------------------------------------------

class Plan:
    name = 'plan'
    wants_hot = False
    wants_novel = False

    def start(self, runnable):
        return runnable[0]

    def preempt(self, t, tstep, gstep, runnable):
        return None

    def handoff(self, runnable):
        return runnable[0]

    def resumed(self, t):
        """t got the baton back inside a step it had been preempted at; it now
        executes that step without another consultation."""

    def describe(self):
        return {'plan': self.name}


class RandomWalk(Plan):
    name = 'rw'

    def __init__(self, rng, p):
        self.rng, self.p = rng, p

    def start(self, runnable):
        return self.rng.choice(runnable)

    def preempt(self, t, tstep, gstep, runnable):
        if len(runnable) > 1 and self.rng.random() < self.p:
            others = [x for x in runnable if x != t]
            return self.rng.choice(others)
        return None

    def handoff(self, runnable):
        return self.rng.choice(runnable)

    def describe(self):
        return {'plan': 'rw', 'p': self.p}


class RandomWalkHot(Plan):
    """Random walk that prefers to switch right before / right after lines that
    touch process-global state (see hot_lines)."""
    name = 'rwh'
    wants_hot = True

    def __init__(self, rng, p_hot, p_cold):
        self.rng, self.p_hot, self.p_cold = rng, p_hot, p_cold
        self.hot_now = False

    def start(self, runnable):
        return self.rng.choice(runnable)

    def preempt(self, t, tstep, gstep, runnable):
        p = self.p_hot if self.hot_now else self.p_cold
        if p > 0 and len(runnable) > 1 and self.rng.random() < p:
            return self.rng.choice([x for x in runnable if x != t])
        return None

    def handoff(self, runnable):
        return self.rng.choice(runnable)

    def describe(self):
        return {'plan': 'rwh', 'p_hot': self.p_hot, 'p_cold': self.p_cold}


class RandomWalkNovel(Plan):
    """Random walk that prefers to switch at lines this node has never executed
    before (cold paths: first fill of a lazily built cache, first use of a
    branch).  Two threads on the same cold key then overtake each other inside
    the fill."""
    name = 'rwn'
    wants_novel = True

    def __init__(self, rng, p_novel, p_old):
        self.rng, self.p_novel, self.p_old = rng, p_novel, p_old
        self.novel_now = False

    def start(self, runnable):
        return self.rng.choice(runnable)

    def preempt(self, t, tstep, gstep, runnable):
        p = self.p_novel if self.novel_now else self.p_old
        if p > 0 and len(runnable) > 1 and self.rng.random() < p:
            return self.rng.choice([x for x in runnable if x != t])
        return None

    def handoff(self, runnable):
        return self.rng.choice(runnable)

    def describe(self):
        return {'plan': 'rwn', 'p_novel': self.p_novel, 'p_old': self.p_old}


class PCT(Plan):
    name = 'pct'

    def __init__(self, rng, nthreads, d, est_len):
        self.rng = rng
        pr = list(range(d, d + nthreads))
        rng.shuffle(pr)
        self.prio = pr                       # higher runs first
        self.low = d - 1                     # next low priority to hand out
        est_len = max(1, est_len)
        self.points = sorted(rng.randrange(est_len) for _ in range(max(0, d - 1)))
        self.d = d

    def _best(self, runnable):
        return max(runnable, key=lambda x: self.prio[x])

    def start(self, runnable):
        return self._best(runnable)

    def preempt(self, t, tstep, gstep, runnable):
        if self.points and gstep >= self.points[0]:
            self.points.pop(0)
            self.prio[t] = self.low
            self.low -= 1
            b = self._best(runnable)
            return b if b != t else None
        return None

    def handoff(self, runnable):
        return self._best(runnable)

    def describe(self):
        return {'plan': 'pct', 'd': self.d}


class OnePreempt(Plan):
    """Thread A runs k steps, then every other thread runs to completion (in
    the given order), then A resumes: the 'context bound 2' family."""
    name = 'one'

    def __init__(self, a, k, order):
        self.a, self.k, self.order = a, k, list(order)
        self.fired = False

    def start(self, runnable):
        return self.a if self.a in runnable else runnable[0]

    def _next(self, runnable):
        for x in self.order:
            if x in runnable and x != self.a:
                return x
        return None

    def preempt(self, t, tstep, gstep, runnable):
        if t == self.a and not self.fired and tstep == self.k:
            self.fired = True
            return self._next(runnable)
        return None

    def handoff(self, runnable):
        if self.fired:
            n = self._next(runnable)
            if n is not None:
                return n
        if self.a in runnable:
            return self.a
        return self._next(runnable) if self._next(runnable) is not None else runnable[0]

    def describe(self):
        return {'plan': 'one', 'a': self.a, 'k': self.k, 'order': self.order}


class RoundRobin(Plan):
    name = 'rr'

    def __init__(self, q, phase, first):
        self.q, self.count, self.first = q, phase % max(1, q), first

    def start(self, runnable):
        return runnable[self.first % len(runnable)]

    def _after(self, t, runnable):
        bigger = [x for x in runnable if x > t]
        return bigger[0] if bigger else runnable[0]

    def preempt(self, t, tstep, gstep, runnable):
        self.count += 1
        if self.count >= self.q:
            self.count = 0
            if len(runnable) > 1:
                return self._after(t, runnable)
        return None

    def handoff(self, runnable):
        return runnable[0]

    def describe(self):
        return {'plan': 'rr', 'q': self.q}


class Replay(Plan):
    """Follows a recorded segment list [(thread, n_steps), ...].  Total for
    every list: a segment whose thread is finished is skipped; when the list
    is exhausted the remaining threads run to completion in index order."""
    name = 'replay'

    def __init__(self, segments):
        self.segs = [[int(t), int(n)] for t, n in segments if int(n) > 0]
        self.i = 0
        self.left = self.segs[0][1] if self.segs else 0

    def _advance(self, runnable):
        """Move to the next segment whose thread is runnable; return its thread or None."""
        while True:
            self.i += 1
            if self.i >= len(self.segs):
                return None
            t, n = self.segs[self.i]
            if t in runnable:
                self.left = n
                return t

    def start(self, runnable):
        if not self.segs:
            self.i = 0
            return runnable[0]
        t = self.segs[0][0]
        if t in runnable:
            return t
        nt = self._advance(runnable)
        return nt if nt is not None else runnable[0]

    def preempt(self, t, tstep, gstep, runnable):
        if self.i >= len(self.segs):
            return None
        if self.segs[self.i][0] != t:
            # t runs only because the planned thread was unavailable
            return None
        if self.left > 0:
            self.left -= 1
            return None
        nt = self._advance(runnable)
        if nt is None:
            return None
        if nt == t:
            self.left -= 1
            return None
        return nt

    def resumed(self, t):
        if self.i < len(self.segs) and self.segs[self.i][0] == t and self.left > 0:
            self.left -= 1

    def handoff(self, runnable):
        if self.i < len(self.segs):
            nt = self._advance(runnable)
            if nt is not None:
                return nt
        return runnable[0]

    def describe(self):
        return {'plan': 'replay', 'segments': len(self.segs)}


def make_plan(spec, rng, nthreads, est_len):
    k = spec['plan']
    if k == 'rw':
        return RandomWalk(rng, spec['p'])
    if k == 'rwh':
        return RandomWalkHot(rng, spec['p_hot'], spec['p_cold'])
    if k == 'rwn':
        return RandomWalkNovel(rng, spec['p_novel'], spec['p_old'])
    if k == 'pct':
        return PCT(rng, nthreads, spec['d'], est_len)
    if k == 'one':
        return OnePreempt(spec['a'], spec['k'], spec['order'])
    if k == 'rr':
        return RoundRobin(spec['q'], spec.get('phase', 0), spec.get('first', 0))
    if k == 'replay':
        return Replay(spec['segments'])
    if k == 'seq':
        return Replay([])
    raise ValueError('unknown plan %r' % (k,))


# --------------------------------------------------------------------------
# cooperative locks (dormant seam: a5 has no locks today)
# --------------------------------------------------------------------------

_current_sched = None
_history_mode = False       # set in a C17 history node: one thread only, so a blocking wait can never be satisfied


class SimDeadlock(SimAbort):
    """A blocking acquire/wait that can never be satisfied (single-threaded node)."""


class _Waiter:
    __slots__ = ('notified', 'timed_out', 'real')

    def __init__(self):
        self.notified = False
        self.timed_out = False
        self.real = None


def _in_sim():
    s = _current_sched
    return s if (s is not None and s.active and s.cur is not None and s.is_sim_thread()) else None


def _coop_wait(w, timeout=None):
    """Block the calling thread until w is notified (or, for a timed wait, until
    simulated time is allowed to jump because nothing else can run)."""
    s = _in_sim()
    if s is None:
        if _history_mode:
            if timeout is not None:
                w.timed_out = True
                return
            raise SimDeadlock()
        w.real = _real_allocate_lock()
        w.real.acquire()
        if w.notified:
            return
        if not w.real.acquire(True, -1 if timeout is None else timeout):
            w.timed_out = True
        return
    while not w.notified and not w.timed_out:
        s.block_on(w, timed=timeout is not None)


def _coop_wake(w):
    w.notified = True
    if w.real is not None:
        try:
            w.real.release()
        except RuntimeError:
            pass
    s = _current_sched
    if s is not None and s.active:
        s.unblock(w)


class CoopLock:
    """threading.Lock replacement for code imported inside simulator
    processes: acquire = try-acquire, else mark the simulated thread blocked
    and yield the baton.  Outside a running simulation it is a real lock."""

    def __init__(self):
        self._l = _real_allocate_lock()

    def acquire(self, blocking=True, timeout=-1):
        if self._l.acquire(False):
            return True
        if not blocking:
            return False
        s = _in_sim()
        if s is None:
            if _history_mode:
                if timeout is not None and timeout >= 0:
                    return False
                raise SimDeadlock()
            return self._l.acquire(True, timeout)
        timed = timeout is not None and timeout >= 0
        while True:
            expired = s.block_on(self, timed=timed)
            if self._l.acquire(False):
                return True
            if expired:
                return False

    def release(self):
        self._l.release()
        s = _current_sched
        if s is not None and s.active:
            s.unblock(self)

    def locked(self):
        return self._l.locked()

    def _release_save(self):
        self.release()
        return None

    def _acquire_restore(self, state):
        self.acquire()

    def _is_owned(self):
        return self._l.locked()

    __enter__ = acquire

    def __exit__(self, *a):
        self.release()


class CoopRLock:
    def __init__(self):
        self._l = CoopLock()
        self._owner = None
        self._count = 0

    def acquire(self, blocking=True, timeout=-1):
        me = _thread.get_ident()
        if self._owner == me:
            self._count += 1
            return True
        if self._l.acquire(blocking, timeout):
            self._owner = me
            self._count = 1
            return True
        return False

    def release(self):
        if self._owner != _thread.get_ident():
            raise RuntimeError('cannot release un-acquired lock')
        self._count -= 1
        if self._count == 0:
            self._owner = None
            self._l.release()

    def _release_save(self):
        state = (self._count, self._owner)
        self._count = 0
        self._owner = None
        self._l.release()
        return state

    def _acquire_restore(self, state):
        self._l.acquire()
        self._count, self._owner = state

    def _is_owned(self):
        return self._owner == _thread.get_ident()

    __enter__ = acquire

    def __exit__(self, *a):
        self.release()


class CoopCondition:
    def __init__(self, lock=None):
        self._lock = lock if lock is not None else CoopRLock()
        self.acquire = self._lock.acquire
        self.release = self._lock.release
        self._waiters = []

    def __enter__(self):
        return self._lock.__enter__()

    def __exit__(self, *a):
        return self._lock.__exit__(*a)

    def wait(self, timeout=None):
        w = _Waiter()
        self._waiters.append(w)
        state = self._lock._release_save() if hasattr(self._lock, '_release_save') else self._lock.release()
        try:
            _coop_wait(w, timeout)
        finally:
            if hasattr(self._lock, '_acquire_restore'):
                self._lock._acquire_restore(state)
            else:
                self._lock.acquire()
            if not w.notified and w in self._waiters:
                self._waiters.remove(w)
        return w.notified

    def wait_for(self, predicate, timeout=None):
        result = predicate()
        while not result:
            if not self.wait(timeout) and timeout is not None:
                return predicate()
            result = predicate()
        return result

    def notify(self, n=1):
        for w in self._waiters[:n]:
            self._waiters.remove(w)
            _coop_wake(w)

    def notify_all(self):
        self.notify(len(self._waiters))

    notifyAll = notify_all


class CoopSemaphore:
    def __init__(self, value=1):
        if value < 0:
            raise ValueError('semaphore initial value must be >= 0')
        self._value = value
        self._waiters = []

    def acquire(self, blocking=True, timeout=None):
        while self._value == 0:
            if not blocking:
                return False
            w = _Waiter()
            self._waiters.append(w)
            try:
                _coop_wait(w, timeout)
            finally:
                if w in self._waiters:
                    self._waiters.remove(w)
            if w.timed_out and self._value == 0:
                return False
        self._value -= 1
        return True

    __enter__ = acquire

    def release(self, n=1):
        self._value += n
        for w in self._waiters[:n]:
            self._waiters.remove(w)
            _coop_wake(w)

    def __exit__(self, *a):
        self.release()


class CoopBoundedSemaphore(CoopSemaphore):
    def __init__(self, value=1):
        CoopSemaphore.__init__(self, value)
        self._initial = value

    def release(self, n=1):
        if self._value + n > self._initial:
            raise ValueError('Semaphore released too many times')
        CoopSemaphore.release(self, n)


class CoopEvent:
    def __init__(self):
        self._flag = False
        self._waiters = []

    def is_set(self):
        return self._flag

    isSet = is_set

    def set(self):
        self._flag = True
        ws, self._waiters = self._waiters, []
        for w in ws:
            _coop_wake(w)

    def clear(self):
        self._flag = False

    def wait(self, timeout=None):
        if self._flag:
            return True
        w = _Waiter()
        self._waiters.append(w)
        try:
            _coop_wait(w, timeout)
        finally:
            if w in self._waiters:
                self._waiters.remove(w)
        return self._flag


_PATCHED = ('Lock', 'RLock', 'Condition', 'Semaphore', 'BoundedSemaphore', 'Event')
_orig = {k: getattr(threading, k) for k in _PATCHED}


def patch_threading():
    """Install the cooperative synchronisation seam: while a5 is being imported
    (module-level primitives) and inside node children (primitives created at
    call time).  The pool machinery of template and worker processes keeps the
    real classes.  Not wrapped: Barrier, Timer, Thread (a library that spawns
    its own threads runs them outside the scheduler's control and is reported
    as a harness error, never as a pass)."""
    threading.Lock = CoopLock
    threading.RLock = CoopRLock
    threading.Condition = CoopCondition
    threading.Semaphore = CoopSemaphore
    threading.BoundedSemaphore = CoopBoundedSemaphore
    threading.Event = CoopEvent
    threading._allocate_lock = CoopLock          # (threading internals created from now on)
    # importlib's per-module import locks are created through the _thread module at import time: a lazy
    # `import` inside a library function, executed by two simulated threads, must block cooperatively too
    _thread.allocate_lock = CoopLock
    _thread.RLock = CoopRLock
    patch_time()


def unpatch_threading():
    for k, v in _orig.items():
        setattr(threading, k, v)
    threading._allocate_lock = _real_allocate_lock
    _thread.allocate_lock = _real_allocate_lock
    _thread.RLock = _real_rlock
    unpatch_time()


# --------------------------------------------------------------------------
# the scheduler (C16)
# --------------------------------------------------------------------------

class Sched:
    def __init__(self, seam, a5mod, thread_calls, plan, budget, log_limit=4000, hot=None):
        self.seam = seam
        self.hot = hot if (hot and plan.wants_hot) else None
        self.prev_hot = [False] * len(thread_calls)
        self.kill = None
        self.killed = None
        self._pos = None
        self.tipoints = [0] * len(thread_calls)
        self.timed = [False] * len(thread_calls)
        self.clock_jumps = []
        self.woke_by_timeout = [False] * len(thread_calls)
        self.timeouts_fired = 0
        self.seen_lines = set() if plan.wants_novel else None
        self.a5 = a5mod
        self.calls = thread_calls
        self.n = len(thread_calls)
        self.plan = plan
        self.budget = budget
        self.fair_after = budget // 2 if not os.environ.get('A5SIM_NO_FAIR') else budget + 1     # (the env switch exists to demonstrate what fairness is for)
        self.fair_switches = 0
        self.locks = [_real_allocate_lock() for _ in range(self.n)]
        for l in self.locks:
            l.acquire()
        self.main_lock = _real_allocate_lock()
        self.main_lock.acquire()
        self.state = ['ready'] * self.n          # ready | done | blocked
        self.blocked_on = [None] * self.n
        self.idents = [None] * self.n
        self.cur = None
        self.active = False
        self.steps = 0
        self.tsteps = [0] * self.n
        self.seg_n = 0
        self.segments = []
        self.switches = []                       # (gstep, from, to, loc)
        self.switch_pairs = set()                # (loc preempted at, function run next)
        self.nswitch = 0
        self.overlap_switches = 0                # switches while >=2 threads were inside a call
        self.in_call = [None] * self.n           # function name currently executing
        self.cur_f = [(c[0]['f'] if c else '-') for c in thread_calls]   # current or next function per thread
        self.results = [[] for _ in range(self.n)]
        self.values = [[] for _ in range(self.n)]     # the returned objects themselves, as the callers hold them
        self.aborted = None
        self.log_limit = log_limit
        self.h = hashlib.blake2b(digest_size=16)

    # -- helpers -----------------------------------------------------------
    def runnable(self):
        return [i for i in range(self.n) if self.state[i] == 'ready']

    def is_sim_thread(self):
        return _thread.get_ident() in self.idents

    def _close_segment(self, t):
        if self.seg_n > 0:
            if self.segments and self.segments[-1][0] == t:
                self.segments[-1][1] += self.seg_n
            else:
                self.segments.append([t, self.seg_n])
        self.seg_n = 0

    def _abort(self, why):
        self.aborted = why
        self.active = False
        self.seam.handler = None
        self.main_lock.release()
        # park forever; the node _exit()s with this thread still parked
        l = _real_allocate_lock()
        l.acquire()
        l.acquire()

    def _transfer(self, t, target, loc):
        """Give the baton from t to target (the caller parks t unless it is done)."""
        self._close_segment(t)
        self.nswitch += 1
        if sum(1 for x in self.in_call if x is not None) >= 2:
            self.overlap_switches += 1
        if loc is not None:
            self.switch_pairs.add((loc, self.cur_f[target]))
        if len(self.switches) < self.log_limit:
            self.switches.append([self.steps, t, target, loc, self.tsteps[t], self._pos])
        self.cur = target
        self.locks[target].release()

    # -- seam handler: one step of the baton holder --------------------------
    def on_step(self, code, pos):
        t = self.cur
        if self.idents[t] != _thread.get_ident():
            # a5 code executed by a thread that does not hold the baton: harness bug
            self._abort('harness: a5 code ran without the baton')
        if self.steps >= self.budget:
            self._abort('budget')
        if self.steps >= self.fair_after and (self.steps - self.fair_after) % 97 == 0:
            # Fairness fallback: a real scheduler is fair, the sampled plans are not (under `one(k)` thread B runs
            # "to completion" even if it busy-waits for A).  Once half the step budget is gone every thread gets a
            # turn every 97 steps; only a run that still does not finish is reported as not returning.
            r = self.runnable()
            if len(r) > 1:
                nxt = [x for x in r if x > t]
                target = nxt[0] if nxt else r[0]
                if target != t:
                    self.fair_switches += 1
                    self._pos = pos
                    self._transfer(t, target, self.seam.loc(code, pos))
                    self.locks[t].acquire()
        if self.hot is not None:
            h = (code.co_filename, self.seam.line_of(code, pos)) in self.hot
            self.plan.hot_now = h or self.prev_hot[t]
            self.prev_hot[t] = h
        if self.seen_lines is not None:
            key = (id(code), pos)
            self.plan.novel_now = key not in self.seen_lines
            self.seen_lines.add(key)
        # one consultation per step; a thread that was preempted here executes this
        # step unconditionally when it gets the baton back (guaranteed progress)
        target = self.plan.preempt(t, self.tsteps[t], self.steps, self.runnable())
        if target is not None and target != t:
            self._pos = pos
            self._transfer(t, target, self.seam.loc(code, pos))
            self.locks[t].acquire()
            self.plan.resumed(t)
        self.tsteps[t] += 1
        self.steps += 1
        self.seg_n += 1
        clock.steps += 1
        cj = self.clock_jumps
        if cj and self.steps >= cj[0][0]:
            clock.jump(cj.pop(0)[1])

    def on_ipoint(self, code, off):
        """An interrupt point of the baton holder (function entry, return from a C
        call, backward jump): where the 'kill' fault may surface."""
        t = self.cur
        if t is None or self.idents[t] != _thread.get_ident():
            return
        k = self.kill
        n = self.tipoints[t]
        self.tipoints[t] = n + 1
        if k is not None and k['t'] == t and n == k['k']:
            # fault: this thread's current call dies here (failed allocation / cancellation)
            self.kill = None
            self.killed = [t, len(self.results[t]), self.seam.iloc(code, off)]
            raise _EXC[k['exc']]('injected by simulator')

    def yield_now(self):
        """time.sleep() inside simulated code: let another runnable thread go first."""
        t = self.cur
        r = [x for x in self.runnable() if x != t]
        if r:
            target = self.plan.handoff(r)
            self._transfer(t, target, 'sleep')
            self.locks[t].acquire()

    # -- cooperative lock support ------------------------------------------
    def _fire_timeout(self):
        """Nothing can run: simulated time jumps to the earliest pending timed wait.
        Returns the thread woken, or None if there is none (deadlock)."""
        tw = [i for i in range(self.n) if self.state[i] == 'blocked' and self.timed[i]]
        if not tw:
            return None
        w = tw[0]
        self.state[w] = 'ready'
        obj, self.blocked_on[w] = self.blocked_on[w], None
        if hasattr(obj, 'timed_out'):
            obj.timed_out = True
        self.woke_by_timeout[w] = True
        self.timeouts_fired += 1
        return w

    def block_on(self, lock, timed=False):
        """Park the baton holder until `lock` is released/notified.  Returns True
        if it was woken because its (simulated) timeout elapsed."""
        t = self.cur
        self.state[t] = 'blocked'
        self.blocked_on[t] = lock
        self.timed[t] = timed
        self.woke_by_timeout[t] = False
        r = self.runnable()
        if not r:
            w = self._fire_timeout()
            if w is None:
                self._abort('deadlock')
            if w == t:
                return True
            r = [w]
        target = self.plan.handoff(r)
        self._transfer(t, target, 'lock')
        self.locks[t].acquire()
        return self.woke_by_timeout[t]

    def unblock(self, lock):
        for i in range(self.n):
            if self.state[i] == 'blocked' and self.blocked_on[i] is lock:
                self.state[i] = 'ready'
                self.blocked_on[i] = None

    # -- thread body ---------------------------------------------------------
    def _thread_main(self, tid):
        self.idents[tid] = _thread.get_ident()
        self.locks[tid].acquire()                # wait for the baton
        try:
            for call in self.calls[tid]:
                args = [canon.dec(a) for a in call['a']]
                self.in_call[tid] = call['f']
                self.cur_f[tid] = call['f']
                outcome, val = apply_call(self.a5, call['f'], args)
                self.in_call[tid] = None
                kept = [canon.enc(a) for a in args] == call['a']
                self.results[tid].append([outcome, kept])
                self.values[tid].append(val)
                self.h.update(('r%d:%s' % (tid, canon.key(outcome))).encode())
        except SimAbort:
            return
        except BaseException as e:               # harness bug inside a simulated thread
            self._abort('harness: %s: %s' % (type(e).__name__, e))
        # finished: hand the baton on
        self.state[tid] = 'done'
        self._close_segment(tid)
        r = self.runnable()
        if not r:
            if any(s == 'blocked' for s in self.state):
                w = self._fire_timeout()
                if w is None:
                    self._abort('deadlock')
                r = [w]
            else:
                self.active = False
                self.done_locks[tid].release()
                self.main_lock.release()
                return
        target = self.plan.handoff(r)
        self._transfer(tid, target, None)
        self.done_locks[tid].release()

    def run(self):
        global _current_sched
        _current_sched = self
        # raw threads (not threading.Thread, whose internals use the primitives the seam replaces)
        self.done_locks = [_real_allocate_lock() for _ in range(self.n)]
        for i in range(self.n):
            self.done_locks[i].acquire()
            _thread.start_new_thread(self._thread_main, (i,))
        # wait until every thread has registered its ident (they then park)
        while any(x is None for x in self.idents):
            _real_time['sleep'](0)
        first = self.plan.start(self.runnable())
        self.cur = first
        self.active = True
        self.seam.handler = self.on_step
        self.seam.ihandler = self.on_ipoint if self.kill is not None else None
        self.locks[first].release()
        self.main_lock.acquire()                 # all done, or aborted
        self.seam.handler = None
        self.seam.ihandler = None
        self.active = False
        _current_sched = None
        if self.aborted is None:
            for l in self.done_locks:
                l.acquire()
        # digest over the normalised schedule (zero-length ping-pongs are
        # no-ops and do not count), every call's result, and per-thread steps
        self.h.update(repr(self.segments).encode())
        for i in range(self.n):
            self.h.update(('s%d:%d' % (i, self.tsteps[i])).encode())
        return self


def _prepare_threads_node(a5mod, seam, spec):
    """Everything that happens before the threads start: warm-up calls, capacity filler."""
    global _history_mode
    _history_mode = True                 # outside the simulated threads a blocking wait can never be satisfied
    clock.reset()
    clock.active = True
    warm_out = []
    for call in spec.get('warm', []):
        args = [canon.dec(a) for a in call['a']]
        outcome, _ = apply_call(a5mod, call['f'], args)
        warm_out.append(outcome)
    if spec.get('bulk'):
        b = spec['bulk']
        bulk_calls(a5mod, seam, b['kind'], b['n'], b['seed'], b.get('local'))
    return warm_out


def run_threads_sweep_node(a5mod, seam, spec, ks, hot=None):
    """A whole single-preemption sweep in one node: the state before the threads start (warm-up calls,
    capacity filler) is built once, then every preemption point k runs in its own fork of that state --
    exactly what a fresh node per k would do, without paying for the preparation each time."""
    from . import forks
    warm_out = _prepare_threads_node(a5mod, seam, spec)
    out = []
    for k in ks:
        s2 = dict(spec)
        s2['plan'] = dict(spec['plan'], k=k)
        r = forks.fork_call(run_threads_node, (a5mod, seam, s2, hot, warm_out), 600.0)
        out.append((k, r))
    return out


def run_threads_node(a5mod, seam, spec, hot=None, prepared=None):
    """Body of a C16 node.  spec: threads (list of call lists), warm (list of
    calls run sequentially first), plan (dict), seed, budget, est_len."""
    rng = random.Random(spec['seed'])
    warm_out = prepared if prepared is not None else _prepare_threads_node(a5mod, seam, spec)
    plan = make_plan(spec['plan'], rng, len(spec['threads']), spec.get('est_len', 1000))
    s = Sched(seam, a5mod, spec['threads'], plan, spec['budget'], hot=hot, log_limit=spec.get('log_limit', 4000))
    s.kill = spec.get('kill')
    s.clock_jumps = sorted([list(x) for x in spec.get('clock_jumps', [])])
    s.run()
    clock_reads = clock.reads
    post = post_seq = None
    changed_later = []
    if s.aborted is None and spec.get('post', True):
        # (the last row, if any, are the *probes*: calls related to the run's calls by their arguments -- a
        # neighbouring resolution, the parent cell -- which a poisoned shared entry may hit although no call
        # of the run itself does)
        post, post_seq = post_quiescence(a5mod, spec['threads'] + ([spec['probes']] if spec.get('probes') else []))
        # what the callers were handed must still be what they hold (no result buffer reused behind their back)
        for t in range(len(s.values)):
            for i, v in enumerate(s.values[t]):
                if s.results[t][i][0][0] == 'ok' and canon.enc(v) != s.results[t][i][0][1]:
                    changed_later.append([t, i, ['ok', canon.enc(v)]])
    return {
        'results': s.results,
        'post': post,
        'post_seq': post_seq,
        'killed': s.killed,
        'changed_later': changed_later,
        'fair_switches': s.fair_switches,
        'clock_reads': clock_reads,
        'clock_jumps': clock.jumps,
        'timeouts_fired': s.timeouts_fired,
        'warm': warm_out,
        'aborted': s.aborted,
        'segments': s.segments,
        'switches': s.switches,
        'nswitch': s.nswitch,
        'overlap_switches': s.overlap_switches,
        'switch_pairs': sorted(s.switch_pairs),
        'steps': s.steps,
        'tsteps': s.tsteps,
        'digest': s.h.hexdigest(),
        'foreign': seam.foreign,
    }


# --------------------------------------------------------------------------
# the history driver (C17)
# --------------------------------------------------------------------------



def _mutate(obj, how, rng_val):
    """Caller-side mutation of an object the caller owns.  Returns a short
    description of what was applied, or None if obj is not mutable."""
    if how == 'inner' and isinstance(obj, (list, tuple, dict)):
        # edit a mutable object nested inside what the caller holds (a shallow copy would share it)
        inner = [x for x in (obj.values() if isinstance(obj, dict) else obj) if isinstance(x, (list, dict))]
        if inner:
            r = _mutate(inner[rng_val % len(inner)], 'overwrite', rng_val)
            return 'inner.' + r if r else None
        how = 'overwrite'
    if isinstance(obj, list):
        if how == 'clear':
            obj.clear()
        elif how == 'append':
            obj.append(rng_val)
        elif how == 'reverse':
            obj.reverse()
        elif how == 'overwrite':
            if obj:
                obj[rng_val % len(obj)] = obj[0] if len(obj) > 1 else rng_val
            else:
                obj.append(rng_val)
        elif how == 'pop':
            if obj:
                obj.pop()
            else:
                obj.append(rng_val)
        else:
            obj.append(rng_val)
        return 'list.' + how
    if isinstance(obj, dict):
        if how == 'clear':
            obj.clear()
        elif how in ('append', 'overwrite'):
            obj['segments'] = 1 + (rng_val % 5)
        elif how == 'reverse':
            obj['closed_ring'] = not obj.get('closed_ring', True)
        else:
            obj['junk'] = rng_val
        return 'dict.' + how
    return None


def state_paths(prefix='a5', max_items=400, max_paths=60000):
    """{path: short hash of the value} for every scalar leaf (and every container length) reachable from the
    globals of the a5 modules, by the same generic walk as state_fingerprint().  Two walks, before and after a
    solo call, give the call's *write set*; two calls that write the same path are a candidate pair for an
    exhaustive sweep (c16.gen_conflict_sweep).  Used to choose workloads only, never as an oracle."""
    import types
    out = {}
    seen = set()
    skip = (types.ModuleType, types.FunctionType, types.BuiltinFunctionType, type, types.MethodType)

    def leaf(v):
        if isinstance(v, float):
            return v.hex()
        return repr(v)[:80]

    def walk(v, path, depth):
        if len(out) >= max_paths or depth > 8:
            return
        if isinstance(v, (int, str, bool, bytes, float)) or v is None:
            out[path] = leaf(v)
            return
        if isinstance(v, skip):
            mod = getattr(v, '__module__', None) or ''
            if id(v) in seen or not (mod == prefix or mod.startswith(prefix + '.')):
                return
            seen.add(id(v))
            if isinstance(v, types.FunctionType):
                # state in disguise: mutable default arguments, closure cells
                for n, d in enumerate(v.__defaults__ or ()):
                    if not isinstance(d, (int, str, bool, bytes, float, tuple)) and d is not None:
                        walk(d, '%s.__defaults__[%d]' % (path, n), depth + 1)
                for k, d in sorted((v.__kwdefaults__ or {}).items()):
                    if not isinstance(d, (int, str, bool, bytes, float, tuple)) and d is not None:
                        walk(d, '%s.__kwdefaults__{%s}' % (path, k), depth + 1)
                for n, c in enumerate(v.__closure__ or ()):
                    try:
                        walk(c.cell_contents, '%s.__closure__[%d]' % (path, n), depth + 1)
                    except ValueError:
                        pass
            elif isinstance(v, type):
                # class attributes are shared by all instances
                for k, x in sorted(vars(v).items()):
                    if k.startswith('__') or isinstance(x, (property, staticmethod, classmethod)):
                        continue
                    walk(x, '%s.%s' % (path, k), depth + 1)
            return
        i = id(v)
        if i in seen:
            out[path] = '@shared'
            return
        seen.add(i)
        if isinstance(v, (list, tuple)):
            out[path + '#len'] = str(len(v))
            for n, x in enumerate(v[:max_items]):
                walk(x, '%s[%d]' % (path, n), depth + 1)
        elif isinstance(v, dict):
            out[path + '#len'] = str(len(v))
            for k in sorted(v, key=repr)[:max_items]:
                rk = repr(k)
                if len(rk) > 40:
                    rk = rk[:24] + '~' + hashlib.blake2b(rk.encode(), digest_size=5).hexdigest()
                walk(v[k], '%s{%s}' % (path, rk.replace('{', '(').replace('}', ')')), depth + 1)
        elif isinstance(v, (set, frozenset)):
            out[path + '#set'] = hashlib.blake2b(repr(sorted(v, key=repr)).encode(), digest_size=6).hexdigest()
        else:
            try:
                d = object.__getattribute__(v, '__dict__')
            except Exception:
                d = None
            if isinstance(d, dict):
                out[path + '#type'] = type(v).__name__
                for k in sorted(d, key=repr)[:max_items]:
                    walk(d[k], '%s.%s' % (path, k), depth + 1)
            else:
                slots = []
                for c in type(v).__mro__:
                    slots.extend(getattr(c, '__slots__', ()) if isinstance(getattr(c, '__slots__', ()), (tuple, list)) else ())
                if slots:
                    for k in slots[:max_items]:
                        try:
                            walk(object.__getattribute__(v, k), '%s.%s' % (path, k), depth + 1)
                        except Exception:
                            pass
                else:
                    out[path + '#type'] = type(v).__name__

    for name in sorted(sys.modules):
        if name == prefix or name.startswith(prefix + '.'):
            m = sys.modules[name]
            if m is None:
                continue
            for g in sorted(vars(m)):
                if g.startswith('__'):
                    continue
                walk(vars(m)[g], '%s:%s' % (name, g), 0)
    return out


def write_set(a5mod, call, limit=6000):
    """Paths of library state that a solo, cold execution of `call` leaves changed (path -> hash of new value)."""
    before = state_paths()
    args = [canon.dec(a) for a in call['a']]
    try:
        apply_call(a5mod, call['f'], args)
    except BaseException:
        pass
    after = state_paths()
    diff = {}
    for k, v in after.items():
        if before.get(k) != v:
            diff[k] = v
            if len(diff) >= limit:
                break
    return diff


def state_fingerprint(prefix='a5'):
    """Hash of a generic walk over every mutable object reachable from the
    globals of the a5 modules.  Coverage only, never an oracle."""
    import types
    h = hashlib.blake2b(digest_size=8)
    seen = set()

    def walk(v, depth):
        if depth > 8:
            h.update(b'^')
            return
        if isinstance(v, (int, str, bool, bytes)) or v is None:
            h.update(repr(v).encode())
            return
        if isinstance(v, float):
            h.update(v.hex().encode())
            return
        if isinstance(v, (types.ModuleType, types.FunctionType, types.BuiltinFunctionType, type, types.MethodType)):
            return
        i = id(v)
        if i in seen:
            h.update(b'@')
            return
        seen.add(i)
        if isinstance(v, (list, tuple)):
            h.update(b'[')
            for x in v:
                walk(x, depth + 1)
            h.update(b']')
        elif isinstance(v, dict):
            h.update(b'{')
            for k in sorted(v, key=repr):
                h.update(repr(k).encode())
                walk(v[k], depth + 1)
            h.update(b'}')
        elif isinstance(v, (set, frozenset)):
            h.update(b'<')
            for k in sorted(v, key=repr):
                h.update(repr(k).encode())
            h.update(b'>')
        elif hasattr(v, '__dict__'):
            h.update(type(v).__name__.encode())
            walk(vars(v), depth + 1)
        else:
            h.update(type(v).__name__.encode())

    for name in sorted(sys.modules):
        if name == prefix or name.startswith(prefix + '.'):
            m = sys.modules[name]
            if m is None:
                continue
            for g in sorted(vars(m)):
                if g.startswith('__'):
                    continue
                h.update(g.encode())
                walk(vars(m)[g], 0)
    return h.hexdigest()


def _mark_edited(owned, caller_edited, obj):
    """The caller edited one of its own argument objects.  A function may legitimately have *returned* that very
    object (C17 does not forbid handing the argument back): such a result is then caller-edited too and is no
    longer compared with what it was at return time."""
    for rid, ent in owned.items():
        rv = ent[1]
        if rv is obj:
            caller_edited.add(rid)
        elif type(rv) in (list, tuple) and any(x is obj for x in rv):
            caller_edited.add(rid)
        elif type(rv) is dict and any(x is obj for x in rv.values()):
            caller_edited.add(rid)


def run_history_node(a5mod, seam, spec):
    """Body of a C17 node.  spec['ops'] is a list of ops; see c17.py.
    Returns one record per executed op: pre-call canonical args, outcome,
    post-call canonical args, steps, whether a fault landed."""
    global _history_mode
    _history_mode = True
    clock.reset()
    clock.active = True
    recs = []
    owned = {}          # op index -> (args objects, result object)
    caller_edited = set()
    returned = {}       # op id -> canonical value at return time
    h = hashlib.blake2b(digest_size=16)
    counter = [0]
    inject = [None]     # (k, exc class) or None
    landed = [False]
    lastloc = [None]

    cap = spec.get('call_cap', 4_000_000)

    icount = [0]

    def handler(code, pos):
        counter[0] += 1
        clock.steps += 1
        if counter[0] > cap:
            raise SimAbort()

    def ihandler(code, off):
        # an interrupt point: the exception surfaces here, as a real asynchronous one would
        inj = inject[0]
        if inj is not None and icount[0] == inj[0]:
            inject[0] = None
            landed[0] = True
            lastloc[0] = seam.iloc(code, off)
            icount[0] += 1
            raise inj[1]('injected by simulator')
        icount[0] += 1

    for call in spec.get('warm', []):
        args = [canon.dec(a) for a in call['a']]
        apply_call(a5mod, call['f'], args)

    for i, op in enumerate(spec['ops']):
        kind = op['op']
        oid = op.get('id', i)
        rec = {'i': i, 'id': oid, 'op': kind}
        if kind in ('call', 'repeat', 'bad_call', 'interrupt', 'alias', 'recycle', 'refill', 'retype'):
            recycled = None
            refilled = None
            if kind == 'refill':
                # the caller re-uses the very containers it passed to an earlier call: new content is written
                # into the same list / dict objects (a buffer kept across a loop), then they are passed again
                args = [canon.dec(a) for a in op['a']]
                fname = op['f']
                refilled = False
                old = owned.get(op['ref'])
                if old is not None:
                    for ai in range(min(len(old[0]), len(args))):
                        o = old[0][ai]
                        if type(o) is list and type(args[ai]) in (list, tuple):
                            o[:] = list(args[ai])
                            args[ai] = o
                            refilled = True
                            _mark_edited(owned, caller_edited, o)
                        elif type(o) is dict and type(args[ai]) is dict:
                            o.clear()
                            o.update(args[ai])
                            args[ai] = o
                            refilled = True
                            _mark_edited(owned, caller_edited, o)
            elif kind == 'recycle':
                # the caller lets go of the objects of an earlier call and builds new argument
                # containers, which CPython places at the same addresses (object lifetime fault)
                args = [canon.dec(a) for a in op['a']]
                fname = op['f']
                recycled = False
                old = owned.pop(op['ref'], None)
                if old is not None:
                    old_args = old[0]
                    old = None
                    for ai in range(min(len(old_args), len(args))):
                        if type(old_args[ai]) is list and type(args[ai]) is list:
                            target, content = id(old_args[ai]), args[ai]
                            old_args[ai] = None
                            fresh = []
                            recycled = recycled or id(fresh) == target
                            fresh.extend(content)
                            args[ai] = fresh
                        elif type(old_args[ai]) is dict and type(args[ai]) is dict:
                            target, content = id(old_args[ai]), args[ai]
                            old_args[ai] = None
                            fresh = {}
                            recycled = recycled or id(fresh) == target
                            fresh.update(content)
                            args[ai] = fresh
            elif kind == 'alias':
                if op['ref'] not in owned:
                    rec['skipped'] = True
                    recs.append(rec)
                    continue
                args = owned[op['ref']][0]
                fname = owned[op['ref']][2]
            else:
                args = [canon.dec(a) for a in op['a']]
                fname = op['f']
            pre = [canon.enc(a) for a in args]
            counter[0] = 0
            icount[0] = 0
            landed[0] = False
            lastloc[0] = None
            if kind == 'interrupt':
                inject[0] = (op['k'], _EXC[op['exc']])
            seam.handler = handler
            seam.ihandler = ihandler if kind == 'interrupt' else None
            try:
                outcome, val = apply_call(a5mod, fname, args)
            except SimDeadlock:
                # a blocking acquire/wait in a single-threaded process: this call can never return
                outcome, val = ['abort', 'deadlock'], None
            except SimAbort:
                # runaway call: stop the history here (state after an abandoned call is not judged)
                outcome, val = ['abort', 'cap'], None
            finally:
                seam.handler = None
                seam.ihandler = None
                inject[0] = None
            post = [canon.enc(a) for a in args]
            owned[oid] = (args, val, fname)
            if outcome[0] == 'ok':
                returned[oid] = outcome[1]
            # every result handed out earlier must still be what the caller holds (unless the caller edited it)
            for rid, (_, rv, rf) in owned.items():
                if rid != oid and rid in returned and rid not in caller_edited and rv is not None and not isinstance(rv, (int, float, str)):
                    now = canon.enc(rv)
                    if now != returned[rid]:
                        rec['changed_later'] = {'id': rid, 'f': rf, 'was': returned[rid], 'now': now}
                        returned[rid] = now
                        break
            rec.update({'f': fname, 'pre': pre, 'outcome': outcome, 'post': post,
                        'steps': counter[0], 'landed': landed[0], 'loc': lastloc[0]})
            if recycled is not None:
                rec['recycled'] = recycled
            if refilled is not None:
                rec['refilled'] = refilled
            args = val = None
            if outcome[0] == 'abort':
                recs.append(rec)
                break
        elif kind == 'clock_jump':
            clock.jump(op['dt'])
            rec.update({'dt': op['dt']})
        elif kind == 'bulk':
            rec.update({'n': bulk_calls(a5mod, seam, op['kind'], op['n'], op['seed'], op.get('local')), 'kind': op['kind']})
        elif kind == 'mutate_result':
            ref = op['ref']
            applied = None
            if ref in owned and owned[ref][1] is not None:
                applied = _mutate(owned[ref][1], op['how'], op.get('val', 7))
                if applied:
                    caller_edited.add(ref)
            rec.update({'ref': ref, 'applied': applied})
        elif kind == 'mutate_arg':
            ref = op['ref']
            applied = None
            if ref in owned:
                for a in owned[ref][0]:
                    applied = _mutate(a, op['how'], op.get('val', 7))
                    if applied:
                        _mark_edited(owned, caller_edited, a)
                        break
            rec.update({'ref': ref, 'applied': applied})
        else:
            raise ValueError('unknown op %r' % (kind,))
        h.update(canon.key([rec.get('f'), rec.get('pre'), rec.get('outcome'), rec.get('post'),
                            rec.get('steps'), rec.get('landed'), rec.get('applied')]).encode())
        recs.append(rec)
    out = {'recs': recs, 'digest': h.hexdigest(), 'foreign': seam.foreign, 'clock_reads': clock.reads, 'clock_jumps': clock.jumps}
    if spec.get('fingerprint'):
        out['state'] = state_fingerprint()
    return out


# --------------------------------------------------------------------------
# static scan: source lines that touch state which may be shared
# --------------------------------------------------------------------------

def hot_lines(prefix_dir):
    """(filename, line) pairs of a5 code that touch process-global state:
      (a) writes a global, or reads a global that is rebound inside a function
          or holds a mutable container / object instance;
      (b) reads or writes an attribute of `self` inside a method of a class
          that has a long-lived instance (reachable from module globals);
      (c) stores into a subscript on a line that also loads such a global or
          such a self attribute.
    Used only to *bias* where preemptions and interrupts are placed (never to
    exclude other lines, never as an oracle).  a5 is not called: the code
    objects are found by walking the imported modules."""
    import dis
    import types
    mods = [m for n, m in list(sys.modules.items()) if m is not None and (n == 'a5' or n.startswith('a5.'))]
    plain = (types.ModuleType, type, types.FunctionType, types.BuiltinFunctionType, types.MethodType)

    # long-lived instances and their classes
    singleton_classes = set()
    seen_obj = set()

    # NB: nothing here may run a5-defined code (the template must stay cold: a lazily initialised table
    # behind a list subclass would be warmed by merely iterating it).  Only exact builtin containers are
    # iterated; everything else is looked at through its instance __dict__ fetched with object.__getattribute__.
    def inst_dict(o):
        try:
            d = object.__getattribute__(o, '__dict__')
            return d if type(d) is dict else None
        except Exception:
            return None

    def visit(o, depth):
        if depth > 3 or id(o) in seen_obj or isinstance(o, plain):
            return
        seen_obj.add(id(o))
        t = type(o)
        if t in (list, tuple, set, frozenset):
            for x in list.__iter__(o) if t is list else tuple(o)[:50] if t is tuple else ():
                visit(x, depth + 1)
        elif t is dict:
            for x in list(dict.values(o))[:50]:
                visit(x, depth + 1)
        else:
            d = inst_dict(o)
            if d is not None:
                singleton_classes.add(t)
                for x in list(dict.values(d)):
                    visit(x, depth + 1)

    mutable_globals = set()
    for m in mods:
        for g, v in list(dict.items(vars(m))):
            if g.startswith('__') or isinstance(v, plain) or type(v).__module__ in ('typing', 'types', 'builtins') and not isinstance(v, (list, dict, set, bytearray, tuple)):
                continue
            if isinstance(v, (list, dict, set, bytearray)) or inst_dict(v) is not None:
                mutable_globals.add(g)
            visit(v, 0)

    codes = {}          # code -> is method of a singleton class
    shared_params = {}  # code -> names of parameters whose default is a mutable object (a memo in disguise)

    def note_defaults(f):
        try:
            co = f.__code__
            names = co.co_varnames[:co.co_argcount + co.co_kwonlyargcount]
            dflt = list(f.__defaults__ or ())
            pos = names[co.co_argcount - len(dflt):co.co_argcount]
            for n, d in zip(pos, dflt):
                if type(d) in (list, dict, set, bytearray) or inst_dict(d) is not None:
                    shared_params.setdefault(co, set()).add(n)
            for n, d in (f.__kwdefaults__ or {}).items():
                if type(d) in (list, dict, set, bytearray) or inst_dict(d) is not None:
                    shared_params.setdefault(co, set()).add(n)
        except Exception:
            pass

    def add_code(co, single):
        if not co.co_filename.startswith(prefix_dir):
            return
        if co in codes:
            codes[co] = codes[co] or single
            return
        codes[co] = single
        for c in co.co_consts:
            if isinstance(c, types.CodeType):
                add_code(c, single)

    for m in mods:
        for g, v in list(vars(m).items()):
            if isinstance(v, types.FunctionType):
                add_code(v.__code__, False)
                note_defaults(v)
            elif isinstance(v, type):
                single = any(v in c.__mro__ for c in singleton_classes)
                for a in list(vars(v).values()):
                    f = getattr(a, '__func__', a)
                    if isinstance(f, types.FunctionType):
                        add_code(f.__code__, single)
                        note_defaults(f)
                    elif isinstance(a, property):
                        for pf in (a.fget, a.fset, a.fdel):
                            if isinstance(pf, types.FunctionType):
                                add_code(pf.__code__, single)
    stored_globals = set()
    ins = {}
    for co in codes:
        lst = list(dis.get_instructions(co))
        ins[co] = lst
        for i in lst:
            if i.opname in ('STORE_GLOBAL', 'DELETE_GLOBAL'):
                stored_globals.add(i.argval)
    hot = set()
    for co, lst in ins.items():
        single = codes[co]
        by_line = {}
        line = co.co_firstlineno
        for i in lst:
            if i.starts_line is not None:
                line = i.starts_line
            by_line.setdefault(line, []).append(i)
        for line, li in by_line.items():
            shared_load = False
            is_hot = False
            prev = None
            for i in li:
                op = i.opname
                if op in ('STORE_GLOBAL', 'DELETE_GLOBAL'):
                    is_hot = True
                elif op in ('LOAD_GLOBAL', 'LOAD_NAME') and (i.argval in stored_globals or i.argval in mutable_globals):
                    is_hot = True
                    shared_load = True
                elif op in ('LOAD_FAST', 'LOAD_FAST_CHECK', 'LOAD_DEREF', 'STORE_DEREF') and \
                        (i.argval in shared_params.get(co, ()) or op in ('LOAD_DEREF', 'STORE_DEREF')):
                    # a parameter whose default is a mutable object, or a closure cell: shared by all callers
                    is_hot = True
                    shared_load = True
                elif single and op in ('LOAD_ATTR', 'LOAD_METHOD', 'STORE_ATTR', 'DELETE_ATTR') and prev is not None \
                        and prev.opname in ('LOAD_FAST', 'LOAD_FAST_CHECK') and prev.argval == 'self':
                    is_hot = True
                    shared_load = True
                prev = i
            if not is_hot and shared_load:
                is_hot = True
            if is_hot:
                hot.add((co.co_filename, line))
    return hot
