"""Canonical, bit-exact, JSON-able encoding of Python values.

Floats are encoded by float.hex() (so -0.0 != 0.0 and NaN == NaN), lists and
tuples carry distinct tags, dicts are sorted by encoded key.  Nothing is
rounded.  enc() / dec() round-trip every value the a5 public API takes or
returns, so the same encoding is used for arguments in workloads and replay
files and for results in oracles.
"""
import json


def enc(v):
    t = type(v)
    if t is float:
        return ['f', v.hex()]
    if t is bool:
        return ['b', bool(v)]
    if t is int:
        return ['i', str(v)]          # str: JSON readers lose precision on 64-bit ints
    if t is str:
        return ['s', v]
    if v is None:
        return ['n']
    if t is list:
        return ['L', [enc(x) for x in v]]
    if t is tuple:
        return ['T', [enc(x) for x in v]]
    if t is dict:
        items = [[enc(k), enc(x)] for k, x in v.items()]
        items.sort(key=lambda kv: json.dumps(kv[0], sort_keys=True))
        return ['D', items]
    if isinstance(v, float):
        return ['f', float(v).hex()]
    if isinstance(v, bool):
        return ['b', bool(v)]
    if isinstance(v, int):
        return ['i', str(int(v))]
    if isinstance(v, str):
        return ['s', str(v)]
    if isinstance(v, tuple):          # NamedTuple and friends
        return ['T', [enc(x) for x in v], type(v).__name__]
    if isinstance(v, list):
        return ['L', [enc(x) for x in v], type(v).__name__]
    if isinstance(v, dict):
        items = [[enc(k), enc(x)] for k, x in v.items()]
        items.sort(key=lambda kv: json.dumps(kv[0], sort_keys=True))
        return ['D', items, type(v).__name__]
    if isinstance(v, (set, frozenset)):
        items = [enc(x) for x in v]
        items.sort(key=lambda e: json.dumps(e, sort_keys=True))
        return ['S', items, type(v).__name__]
    # Opaque object: type name only (never an address)
    return ['O', type(v).__module__ + '.' + type(v).__qualname__]


def dec(e):
    tag = e[0]
    if tag == 'f':
        return float.fromhex(e[1])
    if tag == 'b':
        return bool(e[1])
    if tag == 'i':
        return int(e[1])
    if tag == 's':
        return e[1]
    if tag == 'n':
        return None
    if tag == 'L':
        return [dec(x) for x in e[1]]
    if tag == 'T':
        return tuple(dec(x) for x in e[1])
    if tag == 'D':
        return {dec(k): dec(x) for k, x in e[1]}
    raise ValueError('cannot decode %r' % (e,))


def key(e):
    """Stable string key of an encoded value."""
    return json.dumps(e, sort_keys=True, separators=(',', ':'))


def show(e, limit=160):
    """Short human-readable rendering of an encoded value (for logs only)."""
    try:
        s = repr(dec(e))
    except Exception:
        s = key(e)
    if len(s) > limit:
        s = s[:limit - 12] + '...(%d ch)' % len(s)
    return s


def first_diff(a, b, path=''):
    """Path and the two differing leaves of two encoded values (for messages)."""
    if a == b:
        return None
    if a[0] != b[0] or a[0] not in ('L', 'T', 'D'):
        return path or '.', show(a, 80), show(b, 80)
    xa, xb = a[1], b[1]
    if len(xa) != len(xb):
        return (path or '.') + '(len %d vs %d)' % (len(xa), len(xb)), show(a, 80), show(b, 80)
    for i, (p, q) in enumerate(zip(xa, xb)):
        if p != q:
            if a[0] == 'D':
                return first_diff(p[1], q[1], path + '[%s]' % show(p[0], 30)) if p[0] == q[0] else (path + '{key %d}' % i, show(p[0]), show(q[0]))
            return first_diff(p, q, path + '[%d]' % i)
    return path or '.', show(a, 80), show(b, 80)


def diff_text(expected, observed):
    """expected/observed are outcomes ['ok', enc] | ['exc', name] | [...]."""
    if expected[0] == 'ok' and observed[0] == 'ok':
        d = first_diff(expected[1], observed[1])
        if d:
            return 'expected %s at %s, observed %s' % (d[1], d[0], d[2])
    e = show(expected[1], 100) if expected[0] == 'ok' else 'raises ' + str(expected[1])
    o = show(observed[1], 100) if observed[0] == 'ok' else ('raises ' + str(observed[1]) if observed[0] == 'exc' else str(observed))
    return 'expected %s, observed %s' % (e, o)
