"""Check driver: batches of seeded simulated runs over a fork pool, violation
reporting with minimised replay files, determinism self-test, fresh-interpreter
cross-check, evidence.

exit 0  property held on everything explored
exit 1  + line "VIOLATION property=<id> replay=<path>"
exit 2  + line "HARNESS-ERROR ..." (never to be believed as a pass)
"""
import os
import sys
import json
import time
import random
import hashlib
import argparse
import subprocess
import traceback
import multiprocessing
from collections import Counter
from concurrent.futures import ProcessPoolExecutor, as_completed

VERIF = os.path.dirname(os.path.dirname(os.path.abspath(__file__)))
PY = sys.executable

TIERS = {
    'C16': {'quick': {'runs': 2400, 'det': 48, 'sweeps': 28, 'matrix': 13, 'conflict': 6, 'max_seconds': 700},
            'thorough': {'runs': 60000, 'det': 512, 'sweeps': 400, 'matrix': 169, 'conflict': 80, 'max_seconds': 5000}},
    'C17': {'quick': {'runs': 6000, 'det': 48, 'fresh': 48, 'max_seconds': 700},
            'thorough': {'runs': 150000, 'det': 512, 'fresh': 300, 'max_seconds': 5000}},
}

CTX = None          # set in the template before the pool forks


def run_seed(master, prop, tier, i):
    h = hashlib.blake2b(('%d|%s|%s|%d' % (master, prop, tier, i)).encode(), digest_size=8).digest()
    return int.from_bytes(h, 'big')


def tree_id(root):
    """git describe + content hash of <root>/a5."""
    h = hashlib.blake2b(digest_size=8)
    base = os.path.join(root, 'a5')
    for d, dirs, files in sorted(os.walk(base)):
        dirs.sort()
        for f in sorted(files):
            if f.endswith('.py'):
                p = os.path.join(d, f)
                h.update(os.path.relpath(p, base).encode())
                with open(p, 'rb') as fh:
                    h.update(fh.read())
    try:
        desc = subprocess.run(['git', '-C', root, 'describe', '--always', '--dirty'], capture_output=True,
                              text=True, timeout=20).stdout.strip()
    except Exception:
        desc = '?'
    return {'git': desc, 'a5_hash': h.hexdigest()}


# ----------------------------------------------------------------------------
# worker side
# ----------------------------------------------------------------------------

def _chunk(prop, tier, master, idxs, want_samples):
    """Runs a chunk of run indices; returns (summaries, samples, violation|None)."""
    from . import c16, c17, minimise
    ctx = CTX
    summaries, samples = [], []
    for i in idxs:
        seed = run_seed(master, prop, tier, i)
        if prop == 'C16':
            summ, spec, res, v = c16.run_one(ctx, seed, tier)
            summ['i'] = i
            if v is not None:
                spec['run_index'] = i
                spec2, res2, v2 = minimise.minimise_c16(ctx, spec, res, v)
                return summaries, samples, {'i': i, 'seed': seed, 'orig_spec': _strip(spec), 'orig_violation': v,
                                            'spec': _strip(spec2), 'violation': v2, 'segments': res2['segments'],
                                            'switches': res2['switches'][:200], 'results': res2['results'], 'post': res2['post']}
            if want_samples and len(samples) < 2 and summ['overlap'] > 0:
                samples.append(c16.sample_of(spec, res))
        else:
            faults = (i % 2 == 1)
            summ, spec, out, v = c17.run_one(ctx, seed, tier, faults)
            summ['i'] = i
            if v is not None:
                spec2, out2, v2 = c17.minimise(ctx, spec, out, v)
                return summaries, samples, {'i': i, 'seed': seed, 'orig_spec': _strip(spec), 'orig_violation': v,
                                            'spec': _strip(spec2), 'violation': v2, 'recs': out2['recs']}
            if want_samples and len(samples) < 2:
                samples.append(c17.sample_of(spec, out))
        summaries.append(summ)
    return summaries, samples, None


def _strip(spec):
    s = dict(spec)
    if len(s.get('warm', [])) > 60:
        s['warm_note'] = 'full warm sweep (%d calls) kept verbatim' % len(s['warm'])
    return s


SWEEP_PARTS = 8


def _sweep(prop, tier, master, j, part):
    """Systematic context-bound-2 sweep for one sampled pair (A, B): every
    preemption point k of A at which B runs to completion before A resumes.
    Split into SWEEP_PARTS interleaved slices of k so it spreads over the pool."""
    from . import c16
    from .workload import call_repr
    ctx = CTX
    t_start = time.time()
    rng = random.Random(run_seed(master, prop, tier + '-sweep', j))
    nk = TIERS[prop][tier].get('sweeps', 0)
    fpair = None
    nm = TIERS[prop][tier].get('matrix', 0)
    conflict = None
    if j >= nk + nm:
        # conflict-directed pair: two calls whose solo executions write the same piece of library state
        kind = 'conflict'
        spec = c16.gen_conflict_sweep(ctx, rng, tier)
        if spec is None:
            return {'sweep': j, 'part': part, 'A': '-', 'B': '-', 'len_A': 0, 'len_B': 0, 'kind': kind, 'warm_calls': 0,
                    'capacity_filler': 0, 'points': 0, 'of': 0, 'exhaustive': False, 'pairs': [], 'conflict': None}, None
        conflict = spec['conflict']
        fpair = ('conflict', 'conflict')
    elif j >= nk:
        # function-pair matrix: the (j - nk)-th ordered pair of public functions
        fpair = c16.matrix_pair(j - nk, master)
        kind = 'matrix'
        spec = c16.gen_matrix_sweep(ctx, rng, fpair[0], fpair[1], tier)
        if spec is None:
            return {'sweep': j, 'part': part, 'A': fpair[0], 'B': fpair[1], 'len_A': 0, 'len_B': 0, 'kind': kind, 'warm_calls': 0,
                    'capacity_filler': 0, 'points': 0, 'of': 0, 'exhaustive': False, 'pairs': [], 'fpair': list(fpair)}, None
    else:
        kind = c16.SWEEP_KINDS[j % len(c16.SWEEP_KINDS)]
    spec = spec if fpair else c16.gen_spec(ctx, rng, 'quick', force={'T': 2, 'counts': [1, 1], 'plan': 'one', 'gran': 'line', 'no_kill': True,
                                                   'mix': rng.choice(['geo', 'geo', 'forward', 'inverse', 'boundary'])}) \
        if kind == 'far-cold' and rng.random() < 0.5 else c16.gen_sweep(ctx, rng, kind)
    spec['seed'] = run_seed(master, prop, tier + '-sweep', j) >> 16
    gran = spec['gran']
    la = ctx.oracle(spec['threads'][0][0], gran=gran)['steps']
    lb = ctx.oracle(spec['threads'][1][0], gran=gran)['steps']
    if gran == 'instr':
        # instruction granularity: every bytecode boundary inside (and right after) the lines of A
        # that touch process-global state -- the windows that lie inside one source line
        tr = ctx.oracle(spec['threads'][0][0], want_trace=True, gran='instr')['trace'] or []
        ks = sorted({j for j, l in enumerate(tr) if l in ctx.hot} | {j + 1 for j, l in enumerate(tr) if l in ctx.hot})
        if len(tr) + 1 <= (1200 if tier == 'quick' else 6000):
            ks = list(range(len(tr) + 1))        # short call: every bytecode boundary, not only those in hot lines
    else:
        ks = list(range(la + 1))
    exhaustive = True
    cap = (2000 if gran == 'line' else 1200) if tier == 'quick' else 6000
    if gran == 'line':
        # a point costs about la + lb steps: long pairs get fewer points (chosen rare-line-first, below)
        cap = max(500 if tier == 'quick' else 2000, min(cap, (6_000_000 if tier == 'quick' else 60_000_000) // max(1, la + lb)))
    else:
        cap = max(300 if tier == 'quick' else 2000, min(cap, (16_000_000 if tier == 'quick' else 200_000_000) // max(1, la + lb)))
    if len(ks) > cap:
        # too long for every point: all occurrences of the rarely executed lines first -- round-robin over the distinct
        # lines of A's solo trace, those that touch process-global state before the others (a line executed once per
        # call weighs as much as one executed a thousand times) -- for half of the cap, the rest uniformly
        chosen = []
        if gran == 'line':
            tr = ctx.oracle(spec['threads'][0][0], want_trace=True, gran='line')['trace'] or []
            occ = {}
            for idx, l in enumerate(tr):
                occ.setdefault(l, []).append(idx)
            lines = sorted(occ, key=lambda l: (l not in ctx.hot, len(occ[l]), l))
            seen_k = set()
            rank = 0
            while len(chosen) < cap // 2 and any(rank < len(occ[l]) for l in lines):
                for l in lines:
                    if rank < len(occ[l]):
                        for k in (occ[l][rank], occ[l][rank] + 1):
                            if k not in seen_k and len(chosen) < cap // 2:
                                seen_k.add(k)
                                chosen.append(k)
                rank += 1
        rest = [k for k in ks if k not in set(chosen)]
        ks = sorted(set(chosen) | set(rng.sample(rest, min(len(rest), cap - len(chosen)))))
        exhaustive = False
    mine = ks[part::SWEEP_PARTS]
    pairs = set()
    spec['plan'] = {'plan': 'one', 'a': 0, 'k': 0, 'order': [1]}
    for k, res in ctx.run_sweep(spec, mine):
        spec['plan'] = {'plan': 'one', 'a': 0, 'k': k, 'order': [1]}
        v = c16.judge(ctx, spec, res)
        if v is not None and v.get('kind') != 'history-dependence':
            from . import minimise
            spec2, res2, v2 = minimise.minimise_c16(ctx, spec, res, v, max_runs=60)
            return None, {'i': -1 - j, 'seed': spec['seed'], 'orig_spec': spec, 'orig_violation': v, 'spec': spec2,
                          'violation': v2, 'segments': res2['segments'], 'switches': res2['switches'][:200],
                          'results': res2['results'], 'post': res2['post']}
        pairs.update(tuple(p) for p in res['switch_pairs'])
    return {'sweep': j, 'part': part, 'A': call_repr(spec['threads'][0][0], 70), 'B': call_repr(spec['threads'][1][0], 70),
            'len_A': la, 'len_B': lb, 'kind': kind, 'warm_calls': len(spec['warm']), 'capacity_filler': (spec.get('bulk') or {}).get('n', 0), 'points': len(mine), 'of': len(ks), 'cpu_s': round(time.time() - t_start, 1),
            'exhaustive': exhaustive, 'pairs': sorted(pairs), **({'conflict': conflict, 'gran': gran} if conflict else {'fpair': list(fpair), 'gran': gran} if fpair else {})}, None


def _h8(x):
    return hashlib.blake2b(x.encode(), digest_size=6).hexdigest()


def _call_prints(prop, spec, res_or_out):
    """[(fingerprint of the call, fingerprint of its outcome, call)] of one run."""
    from . import canon
    out = []
    if prop == 'C16':
        for t, tc in enumerate(spec['threads']):
            for i, c in enumerate(tc):
                if t < len(res_or_out['results']) and i < len(res_or_out['results'][t]):
                    out.append((_h8(c['f'] + canon.key(c['a'])), _h8(canon.key(res_or_out['results'][t][i][0])), c))
    else:
        for rec in res_or_out['recs']:
            if 'outcome' in rec and not rec.get('landed'):
                c = {'f': rec['f'], 'a': rec['pre']}
                out.append((_h8(c['f'] + canon.key(c['a'])), _h8(canon.key(rec['outcome'])), c))
    return out


def _digests(prop, tier, master, idxs, with_calls=False):
    from . import c16, c17
    out = {}
    for i in idxs:
        seed = run_seed(master, prop, tier, i)
        if with_calls:
            CTX.oracle_log = []
        if prop == 'C16':
            summ, spec, res, v = c16.run_one(CTX, seed, tier)
        else:
            summ, spec, res, v = c17.run_one(CTX, seed, tier, i % 2 == 1)
        cp = _call_prints(prop, spec, res)
        out[str(i)] = {'digest': summ['digest'] + ('!' if v else ''), 'calls': [[a, b] for a, b, _ in cp]}
        if with_calls:
            # the run's own calls plus every reference call its generation asked for
            from .workload import call_key
            seen, objs = set(), []
            for c in [c for _, _, c in cp] + CTX.oracle_log:
                k = call_key(c)
                if k not in seen:
                    seen.add(k)
                    objs.append(c)
            out[str(i)]['call_objs'] = objs
            CTX.oracle_log = None
    return out


def _fresh_value(root, call, hashseed=None):
    """The same call in a genuinely fresh interpreter (python -c), random hash seed."""
    prog = (
        "import sys, json\n"
        "sys.dont_write_bytecode = True\n"
        "sys.path.insert(0, %r); sys.path.insert(0, %r)\n"
        "from sim import canon\n"
        "import a5\n"
        "call = json.loads(sys.stdin.read())\n"
        "args = [canon.dec(a) for a in call['a']]\n"
        "try:\n"
        "    out = ['ok', canon.enc(getattr(a5, call['f'])(*args))]\n"
        "except BaseException as e:\n"
        "    out = ['exc', type(e).__name__]\n"
        "sys.stdout.write('\\n@@' + json.dumps(out))\n" % (VERIF, root))
    env = dict(os.environ)
    env['PYTHONHASHSEED'] = str(hashseed if hashseed is not None else random.SystemRandom().randrange(1, 2 ** 31))
    env['PYTHONDONTWRITEBYTECODE'] = '1'
    p = subprocess.run([PY, '-c', prog], input=json.dumps(call), capture_output=True, text=True, timeout=120, env=env)
    if '@@' not in p.stdout:
        raise RuntimeError('fresh interpreter failed: %s' % p.stderr[-400:])
    return json.loads(p.stdout.rsplit('@@', 1)[1])


def _fresh_batch(prop, tier, master, n):
    """n calls drawn from the workload generator, evaluated in fresh interpreters."""
    from .workload import Gen, call_repr
    rng = random.Random(run_seed(master, prop, tier + '-fresh', 0))
    g = Gen(rng, CTX)
    bad = []
    done = 0
    from . import c17
    from .workload import mk
    from .workload import PUBLIC
    pending = []
    for j in range(n):
        x = rng.random()
        if pending:
            c = pending.pop()
        elif j < min(2 * len(PUBLIC), (2 * n) // 3):
            # every public function at least twice, each under its own random hash seed
            c = g.call('all', g.base() if rng.random() < 0.6 else None, fname=PUBLIC[j % len(PUBLIC)])
        elif x < 0.45:
            # tie-prone inputs: vertices of a cell looked up again at its own resolution, poles, whole degrees
            w = [q for q in c17.vertex_walk(g, CTX) if q['f'] == 'lonlat_to_cell']
            rng.shuffle(w)
            pending = w[:3]
            c = pending.pop() if pending else g.call('all', None)
        elif x < 0.8:
            # whole degrees; the poles (corners of five cells at every resolution) get extra weight
            c = mk('lonlat_to_cell', (float(rng.randrange(-180, 181, 15)), float(rng.choice([90, 90, 90, -90, -90, 0, 45, -45, 30, 60]))), g.res(2, 20))
        else:
            c = g.call('all', g.base() if rng.random() < 0.6 else None)
        if not CTX.usable(c):
            continue
        o = CTX.oracle(c)['outcome']
        hs = rng.randrange(1, 2 ** 31)
        f = _fresh_value(CTX.root, c, hs)
        done += 1
        if f != o:
            bad.append({'call': c, 'call_repr': call_repr(c), 'oracle_fork': o, 'fresh_interpreter': f,
                        'hashseeds': [int(os.environ.get('PYTHONHASHSEED') or 0), hs]})
    return done, bad


def interpreter_dependence(root, call, hashseeds):
    """Evaluate one call in the fork oracle and in fresh interpreters under the given
    PYTHONHASHSEED values.  Returns (differs?, {where: outcome})."""
    vals = {'fork-of-check-process': CTX.oracle(call)['outcome']}
    for hs in hashseeds:
        vals['fresh-interpreter PYTHONHASHSEED=%s' % hs] = _fresh_value(root, call, hs)
    from . import canon
    return len({canon.key(v) for v in vals.values()}) > 1, vals


def interpreter_violation(call, hashseeds, vals):
    from .workload import call_repr
    return {'i': -1, 'seed': int(_h8(call_repr(call, 10 ** 6)), 16), 'orig_spec': {}, 'orig_violation': {},
            'spec': {'call': call, 'hashseeds': list(hashseeds)},
            'violation': {'kind': 'interpreter-dependent', 'f': call['f'], 'call_repr': call_repr(call),
                          'detail': 'interpreter-dependent: %s returns %s' % (
                              call_repr(call, 90), '; '.join('%s under %s' % (
                                  (__import__('sim.canon', fromlist=['x']).show(v[1], 70) if v[0] == 'ok' else 'raises %s' % v[1]), k)
                                  for k, v in sorted(vals.items())))},
            'recs': []}


# ----------------------------------------------------------------------------
# main side
# ----------------------------------------------------------------------------

def load_known(prop):
    opens, fixed = [], []
    p = os.path.join(VERIF, 'known_findings.txt')
    if os.path.exists(p):
        for line in open(p):
            line = line.strip()
            if not line or line.startswith('#'):
                continue
            if ('property=%s ' % prop) not in line + ' ':
                continue
            if line.startswith('open:'):
                sig = [w[4:] for w in line.split() if w.startswith('sig=')]
                opens.append({'sig': sig[0] if sig else None, 'line': line})
            elif line.startswith('fixed:'):
                fixed.append(line)
    return opens, fixed


def signature(prop, v):
    a = hashlib.blake2b(v.get('call_repr', '').encode(), digest_size=4).hexdigest()
    return '%s:%s:%s' % (v['kind'], v.get('f', '-'), a)


def harness_error(msg):
    print('HARNESS-ERROR ' + msg.replace('\n', ' | ')[:2000], flush=True)
    sys.exit(2)


def write_replay(prop, tier, master, root, viol_rec):
    rdir = os.environ.get('A5SIM_REPLAY_DIR') or os.path.join(VERIF, 'replays')
    os.makedirs(rdir, exist_ok=True)
    path = os.path.join(rdir, '%s-%d.json' % (prop, viol_rec['seed']))
    doc = {
        'property': prop, 'kind': viol_rec['violation']['kind'], 'VERIF_SEED': master, 'tier': tier,
        'run_index': viol_rec['i'], 'run_seed': viol_rec['seed'], 'tree': tree_id(root),
        'violation': viol_rec['violation'], 'spec': viol_rec['spec'],
        'observed': {k: viol_rec[k] for k in ('segments', 'switches', 'results', 'post', 'recs') if k in viol_rec},
        'original': {'violation': viol_rec['orig_violation'], 'spec': viol_rec['orig_spec']},
        'how_to_replay': '/venv/bin/python /verif/check %s --replay %s' % (prop, path),
    }
    with open(path, 'w') as f:
        json.dump(doc, f, indent=1)
    return path


def do_replay(prop, path, root, quiet=False):
    """Re-execute a replay file against the current tree.  Returns violation or None."""
    from . import c16, c17
    doc = json.load(open(path))
    spec = doc['spec']
    if doc.get('kind') == 'interpreter-dependent':
        differs, vals = interpreter_dependence(root, spec['call'], spec['hashseeds'])
        v = interpreter_violation(spec['call'], spec['hashseeds'], vals)['violation'] if differs else None
        return v, {'values': vals}
    if prop == 'C16':
        res = CTX.run_threads(spec)
        v = c16.judge(CTX, spec, res, explain=True)
        if v is not None and v.get('kind') == 'history-dependence':
            v = None
        obs = {'results': res['results'], 'post': res['post'], 'post_seq': res['post_seq'], 'segments': res['segments']}
    else:
        out = CTX.run_history(spec)
        v = c17.judge(CTX, spec, out)
        obs = {'recs': [{k: r.get(k) for k in ('op', 'f', 'outcome', 'post')} for r in out['recs']]}
    return v, obs


def main(argv=None):
    ap = argparse.ArgumentParser(prog='check')
    ap.add_argument('prop', choices=['C16', 'C17', 'selftest'])
    ap.add_argument('--tier', default=os.environ.get('VERIF_TIER') or 'quick', choices=['quick', 'thorough'])
    ap.add_argument('--replay')
    ap.add_argument('--show', help='print a replay file in readable form and exit')
    ap.add_argument('--a5-root', default='/repo')
    ap.add_argument('--workers', type=int, default=int(os.environ.get('VERIF_WORKERS') or 0) or min(16, os.cpu_count() or 4))
    ap.add_argument('--runs', type=int)
    ap.add_argument('--digests', type=int, help='print digests of the first N runs as JSON and exit')
    ap.add_argument('--digest-idx', help='comma-separated run indices for --digests (instead of the first N)')
    ap.add_argument('--no-evidence', action='store_true')
    ap.add_argument('--max-seconds', type=float, default=float(os.environ.get('VERIF_MAX_SECONDS') or 0))
    args = ap.parse_args(argv)

    if os.environ.get('A5SIM_REEXEC') != '1':
        env = dict(os.environ)
        env['A5SIM_REEXEC'] = '1'
        env.setdefault('PYTHONHASHSEED', '0')
        env['PYTHONDONTWRITEBYTECODE'] = '1'
        os.execve(PY, [PY, os.path.join(VERIF, 'check')] + (argv if argv is not None else sys.argv[1:]), env)

    if args.prop == 'selftest':
        from . import selftest
        return selftest.main(args)

    if args.show:
        return show_replay(args.show)

    try:
        master = int(os.environ.get('VERIF_SEED') or 0)
    except ValueError:
        master = int.from_bytes(hashlib.blake2b(os.environ['VERIF_SEED'].encode(), digest_size=6).digest(), 'big')
    prop, tier, root = args.prop, args.tier, os.path.realpath(args.a5_root)
    t0 = time.time()

    global CTX
    from .ctx import Ctx
    try:
        CTX = Ctx(root)
    except Exception as e:
        # a tree whose import fails cannot satisfy the property for any caller, but that is
        # not what this check decides: report as harness error
        harness_error('cannot import a5 from %s: %s: %s' % (root, type(e).__name__, e))

    if CTX.template_warmed:
        # the hot-line scan executed library code (it must not): start again without it, from a cold template
        sys.stderr.write('a5sim: static scan executed %d a5 line events; restarting without it\n' % CTX.template_warmed)
        env = dict(os.environ)
        env['A5SIM_NO_HOT'] = '1'
        os.execve(PY, [PY, os.path.join(VERIF, 'check')] + (argv if argv is not None else sys.argv[1:]), env)

    if args.replay:
        try:
            v1, o1 = do_replay(prop, args.replay, root)
            v2, o2 = do_replay(prop, args.replay, root)
        except Exception as e:
            harness_error('replay failed: %s' % traceback.format_exc())
        if o1 != o2:
            harness_error('replay is not deterministic')
        if v1 is not None:
            print('replay reproduces: %s' % v1['detail'])
            print('VIOLATION property=%s replay=%s' % (prop, os.path.abspath(args.replay)))
            return 1
        print('replay does not violate %s on this tree' % prop)
        return 0

    cfg = dict(TIERS[prop][tier])
    if args.runs:
        cfg['runs'] = args.runs
    mpctx = multiprocessing.get_context('fork')

    if args.digests:
        out = {}
        idxs = [int(x) for x in args.digest_idx.split(',')] if args.digest_idx else list(range(args.digests))
        with ProcessPoolExecutor(args.workers, mp_context=mpctx) as ex:
            futs = [ex.submit(_digests, prop, tier, master, idxs[j::args.workers]) for j in range(args.workers)]
            for f in futs:
                out.update(f.result())
        print('@@DIGESTS ' + json.dumps(out, sort_keys=True))
        return 0

    print('check %s tier=%s VERIF_SEED=%d root=%s workers=%d runs=%d' % (prop, tier, master, root, args.workers, cfg['runs']), flush=True)
    opens, fixed = load_known(prop)

    from . import evidence
    agg = evidence.Aggregator(prop, tier, master)
    violations = []
    known_hits = []
    chunk = 10 if tier == 'quick' else 40
    idxs = list(range(cfg['runs']))
    chunks = [idxs[i:i + chunk] for i in range(0, len(idxs), chunk)]
    max_s = args.max_seconds or cfg.get('max_seconds') or 0
    deadline = (t0 + max_s) if max_s else None
    skipped = 0
    if prop == 'C16' and cfg.get('conflict'):
        # write sets of a pool of calls, computed once (by cold forks of this template) and inherited by the workers
        from . import c16 as _c16
        tp = time.time()
        CTX.conflict_pool = _c16.conflict_pool(CTX, random.Random(run_seed(master, prop, 'conflict-pool', 0)))
        agg.conflict_pool = {k: v for k, v in CTX.conflict_pool.items() if k not in ('calls', 'cands')}
        agg.conflict_pool.update({'calls_in_pool': len(CTX.conflict_pool['calls']), 'seconds': round(time.time() - tp, 1)})
    ex = ProcessPoolExecutor(args.workers, mp_context=mpctx)
    try:
        futs = {}
        sweep_futs = {}
        fresh_fut_early = ex.submit(_fresh_batch, prop, tier, master, cfg['fresh']) if cfg.get('fresh') else None
        sweep_tasks = [(j, part) for j in range((cfg.get('sweeps', 0) + cfg.get('matrix', 0) + cfg.get('conflict', 0)) if prop == 'C16' else 0)
                       for part in range(SWEEP_PARTS)]
        if prop == 'C16' and cfg.get('matrix'):
            # kind sweeps and function-pair sweeps alternate, so that a wall budget cuts both proportionally
            nk0, nm0, nc0 = cfg.get('sweeps', 0), cfg.get('matrix', 0), cfg.get('conflict', 0)
            def frac(j):
                if j < nk0:
                    return j / max(1, nk0)
                if j < nk0 + nm0:
                    # (thorough: the matrix is scheduled within the first third of the batch, so that a wall
                    # budget that cuts the batch short still leaves all 169 ordered pairs swept)
                    return (j - nk0) / max(1, nm0) * (0.3 if tier == 'thorough' else 1.0)
                return (j - nk0 - nm0) / max(1, nc0)
            sweep_tasks.sort(key=lambda t: (frac(t[0]), t[0], t[1]))
        # the first 48 chunks first (they carry the runs the determinism self-test repeats), then sampled runs
        # and sweep slices interleaved, so that a wall budget cuts both proportionally
        every = max(1, len(chunks) // max(1, len(sweep_tasks))) if sweep_tasks else 0
        si = 0
        for ci, c in enumerate(chunks):
            futs[ex.submit(_chunk, prop, tier, master, c, ci < 4)] = c
            if sweep_tasks and ci >= 6 and (ci % every == 0):
                for _ in range(max(1, len(sweep_tasks) // max(1, len(chunks))) if len(sweep_tasks) > len(chunks) else 1):
                    if si < len(sweep_tasks):
                        j, part = sweep_tasks[si]
                        si += 1
                        sweep_futs[ex.submit(_sweep, prop, tier, master, j, part)] = (j, part)
        while si < len(sweep_tasks):
            j, part = sweep_tasks[si]
            si += 1
            sweep_futs[ex.submit(_sweep, prop, tier, master, j, part)] = (j, part)
        fresh_fut = fresh_fut_early
        allf = list(futs) + list(sweep_futs)
        for f in as_completed(allf):
            if f.cancelled():
                skipped += 1
                continue
            try:
                r = f.result()
            except Exception as e:
                ex.shutdown(wait=False, cancel_futures=True)
                harness_error('worker failed: %s: %s' % (type(e).__name__, str(e)[-1500:]))
            if f in futs:
                summaries, samples, viol = r
                agg.add(summaries, samples)
            else:
                info, viol = r
                if info:
                    agg.add_sweep(info)
            if viol is not None:
                sig = signature(prop, viol['violation'])
                hit = [o for o in opens if o['sig'] == sig]
                if hit:
                    known_hits.append((sig, viol['violation']['detail']))
                else:
                    violations.append(viol)
                    # first violation: stop the batch now (pending futures cancelled, busy workers terminated)
                    for g in allf:
                        g.cancel()
                    for wp in list(getattr(ex, '_processes', {}).values()):
                        try:
                            wp.terminate()
                        except Exception:
                            pass
                    break
            if deadline and time.time() > deadline and not violations:
                for g in allf:
                    if g.cancel():
                        pass
        fresh_done, fresh_bad = (fresh_fut.result() if fresh_fut is not None and not violations else (0, []))
    finally:
        ex.shutdown(wait=not violations, cancel_futures=True)

    for sig, detail in sorted(set(known_hits)):
        print('KNOWN-FINDING: property=%s %s %s' % (prop, sig, detail))

    if fresh_bad and not violations:
        # the value depends on interpreter start-up circumstances: a C17 violation in its own right
        b = fresh_bad[0]
        differs, vals = interpreter_dependence(root, b['call'], b['hashseeds'])
        if not differs:
            harness_error('fresh interpreter disagreed with the fork oracle once but not again: %s' % b['call_repr'])
        violations.append(interpreter_violation(b['call'], b['hashseeds'], vals))

    if violations:
        viol = min(violations, key=lambda v: (v['i'] < 0, abs(v['i'])))
        path = write_replay(prop, tier, master, root, viol)
        # the replay must reproduce, twice, in fresh processes
        ok = 0
        for _ in range(2):
            p = subprocess.run([PY, os.path.join(VERIF, 'check'), prop, '--replay', path, '--a5-root', root],
                               capture_output=True, text=True, timeout=600,
                               env={k: v for k, v in os.environ.items() if k != 'A5SIM_REEXEC'})
            if p.returncode == 1 and 'VIOLATION property=%s' % prop in p.stdout:
                ok += 1
        if ok != 2:
            harness_error('violation found (run %d: %s) but its replay file %s reproduced %d/2 times'
                          % (viol['i'], viol['violation']['detail'], path, ok))
        print('run %d seed %d: %s' % (viol['i'], viol['seed'], viol['violation']['detail']))
        print('minimised to %s; replayed twice in fresh processes' % _shape(prop, viol['spec']))
        print('VIOLATION property=%s replay=%s' % (prop, path), flush=True)
        if not args.no_evidence:
            agg.write(root, time.time() - t0, violations=len(violations), extra={})
        return 1

    # determinism self-test: first N runs again, fresh process, other hash seed, other worker count
    det = {'runs': 0, 'equal': 0}
    ndet = min(cfg.get('det', 0), cfg['runs'])
    def other_execution(hashseed, n, idx=None):
        env = dict(os.environ)
        env['PYTHONHASHSEED'] = str(hashseed)
        env['A5SIM_REEXEC'] = '1'
        env['VERIF_SEED'] = str(master)
        cmd = [PY, os.path.join(VERIF, 'check'), prop, '--tier', tier, '--digests', str(n), '--workers', '3', '--a5-root', root]
        if idx:
            cmd += ['--digest-idx', ','.join(str(i) for i in idx)]
        p = subprocess.run(cmd, capture_output=True, text=True, timeout=3000, env=env)
        line = [l for l in p.stdout.splitlines() if l.startswith('@@DIGESTS ')]
        if p.returncode != 0 or not line:
            harness_error('determinism self-test could not run: %s' % p.stderr[-800:])
        return json.loads(line[0][len('@@DIGESTS '):])

    if ndet:
        own_seed = int(os.environ.get('PYTHONHASHSEED') or 0)
        env = {'PYTHONHASHSEED': str(1 + (master * 7919 + 12345) % 1000003)}
        second = other_execution(env['PYTHONHASHSEED'], ndet)
        first = agg.digest_by_index
        diff = [i for i in range(ndet) if i in first and second.get(str(i), {}).get('digest') != first[i]]
        det = {'runs': ndet, 'equal': ndet - len(diff), 'second_hashseed': env['PYTHONHASHSEED'], 'second_workers': 3}
        if diff:
            # Who differs: the simulator, or the library?  Re-run the first differing runs here and look for a
            # call with identical arguments and a different outcome; confirm it in fresh interpreters.
            seeds = [int(os.environ.get('PYTHONHASHSEED') or 0), int(env['PYTHONHASHSEED'])]
            culprit = None
            tested = 0
            for i in diff[:6]:
                mine = _digests(prop, tier, master, [i], with_calls=True)[str(i)]
                # every call of the run, and every reference call its generation needed (a generator fed with an
                # interpreter-dependent value produces different runs), in fresh interpreters under both seeds
                for c in mine['call_objs']:
                    if tested >= 160:
                        break
                    tested += 1
                    a = _fresh_value(root, c, seeds[0])
                    b = _fresh_value(root, c, seeds[1])
                    if a != b:
                        differs, vals = interpreter_dependence(root, c, seeds)
                        if differs:
                            culprit = (c, vals)
                            break
                if culprit or tested >= 160:
                    break
            if culprit is None:
                # no result of the library differs.  Is the simulator reproducible under the hash seed it pins?
                third = other_execution(own_seed, len(diff[:12]), diff[:12])
                still = [i for i in diff[:12] if third.get(str(i), {}).get('digest') != first[i]]
                if still:
                    harness_error('simulator is not deterministic: run indices %s differ between two executions '
                                  'with the same PYTHONHASHSEED' % still[:10])
                print('NOTE: %d of %d runs take a different number of steps under PYTHONHASHSEED=%s than under %s '
                      '(hash-order dependent control flow in the library); no returned value differs in the %d calls '
                      'tried in fresh interpreters; runs and replays are reproducible under the pinned seed %s'
                      % (len(diff), ndet, seeds[1], seeds[0], tested, seeds[0]), flush=True)
                det['hash_order_dependent_control_flow'] = len(diff)
                det['equal'] = ndet
                diff = []
        if diff:
            viol = interpreter_violation(culprit[0], seeds, culprit[1])
            if prop == 'C17':
                path = write_replay(prop, tier, master, root, viol)
                print(viol['violation']['detail'])
                print('VIOLATION property=%s replay=%s' % (prop, path), flush=True)
                if not args.no_evidence:
                    agg.write(root, time.time() - t0, violations=1, extra={'determinism': det})
                return 1
            print('NOTE: not C16\'s to report: %s (C17 territory); schedules are reproducible under a fixed PYTHONHASHSEED'
                  % viol['violation']['detail'], flush=True)
            det['library_depends_on_hashseed'] = True

    wall = time.time() - t0
    if not args.no_evidence:
        agg.write(root, wall, violations=0, extra={'determinism': det, 'fresh_interpreter_checks': fresh_done,
                                                     'skipped_after_deadline': skipped,
                                                     'known_findings_fixed': fixed, 'known_findings_open_hit': len(known_hits)})
    print('%s held on %d runs (%d distinct non-trivial) in %.0fs; determinism %d/%d%s'
          % (prop, agg.n, agg.distinct_nontrivial(), wall, det['equal'], det['runs'],
             '' if args.no_evidence else '; evidence written'), flush=True)
    return 0


def show_replay(path):
    """Human-readable rendering of a replay file (no execution)."""
    from . import canon
    from .workload import call_repr
    d = json.load(open(path))
    v = d.get('violation', {})
    print('%s %s  tree %s  VERIF_SEED=%s run %s' % (d.get('property'), d.get('kind'), d.get('tree'), d.get('VERIF_SEED'), d.get('run_index')))
    print('  ' + str(v.get('detail')))
    spec = d['spec']
    if 'call' in spec:
        print('  one call: %s under PYTHONHASHSEED %s' % (call_repr(spec['call'], 200), spec.get('hashseeds')))
        return 0
    for c in spec.get('warm', [])[:20]:
        print('  warm-up: ' + call_repr(c, 120))
    if len(spec.get('warm', [])) > 20:
        print('  warm-up: ... %d calls in all' % len(spec['warm']))
    if spec.get('bulk'):
        print('  capacity filler: %s' % spec['bulk'])
    if 'threads' in spec:
        for t, tc in enumerate(spec['threads']):
            for c in tc:
                print('  thread %d: %s' % (t, call_repr(c, 120)))
        print('  granularity %s, schedule segments (thread, steps): %s' % (spec.get('gran'), spec['plan'].get('segments', spec['plan'])))
        for sw in d.get('observed', {}).get('switches', [])[:40]:
            print('    step %s: thread %s -> %s at %s' % (sw[0], sw[1], sw[2], sw[3]))
    else:
        for op in spec['ops']:
            if 'f' in op:
                extra = ' [%s at interrupt point %s]' % (op['exc'], op['k']) if op['op'] == 'interrupt' else ''
                print('  op %-3s %-13s %s%s' % (op.get('id'), op['op'], call_repr(op, 120), extra))
            else:
                print('  op %-3s %-13s %s' % (op.get('id'), op['op'], {k: x for k, x in op.items() if k not in ('op', 'id')}))
    return 0


def _shape(prop, spec):
    if 'call' in spec:
        return 'one call evaluated in fresh interpreters under PYTHONHASHSEED %s' % spec.get('hashseeds')
    if prop == 'C16':
        return '%d threads, %d calls, %d warm-up calls, %d schedule segments' % (
            len(spec['threads']), sum(len(t) for t in spec['threads']), len(spec.get('warm', [])),
            len(spec['plan'].get('segments', [])))
    return '%d ops, %d warm-up calls' % (len(spec['ops']), len(spec.get('warm', [])))
