"""Evidence aggregation: what a check run actually covered."""
import os
import json
from collections import Counter

VERIF = os.path.dirname(os.path.dirname(os.path.abspath(__file__)))


class Aggregator:
    def __init__(self, prop, tier, seed):
        self.prop, self.tier, self.seed = prop, tier, seed
        self.n = 0
        self.digest_by_index = {}
        self.digests_nontrivial = set()
        self.digests = set()
        self.steps = 0
        self.c = Counter()
        self.samples = []
        self.pairs = set()
        self.funcs = Counter()
        self.sweeps = []
        self.states = set()
        self.landed_locs = set()
        self.max_sph = 0

    def add(self, summaries, samples):
        for s in summaries:
            self.n += 1
            self.digest_by_index[s['i']] = s['digest']
            self.digests.add(s['digest'])
            self.steps += s['steps']
            for f in s['funcs']:
                self.funcs[f] += 1
            if self.prop == 'C16':
                if s['overlap'] >= 1:
                    self.digests_nontrivial.add(s['digest'])
                    self.c['runs_with_overlapping_preemption'] += 1
                self.c['plan:' + s['plan']] += 1
                self.c['gran:' + s['gran']] += 1
                for k in ('T', 'locality', 'mix', 'temp'):
                    self.c['%s:%s' % (k, s['conf'][k])] += 1
                self.c['switches'] += s['nswitch']
                self.c['switches_while_2plus_threads_inside_calls'] += s['overlap']
                self.c['calls'] += s['ncalls']
                self.c['calls_that_legitimately_raised'] += s['raised_ok']
                if s['fired'] is True:
                    self.c['one_preemption_fired'] += 1
                elif s['fired'] is False:
                    self.c['one_preemption_beyond_end_of_call'] += 1
                self.c['fault:clock_jumps_injected'] += s.get('clock_jumps', 0)
                self.c['probe:clock_reads_by_library'] += s.get('clock_reads', 0)
                self.c['simulated_timeouts_fired'] += s.get('timeouts_fired', 0)
                self.c['fairness_fallback_switches'] += s.get('fair_switches', 0)
                if s.get('killed'):
                    self.c['fault:thread_call_killed_midway'] += 1
                if s['history_dependence']:
                    self.c['sequentially_explainable_mismatch(C17 territory)'] += 1
                self.pairs.update(tuple(p) for p in s['pairs'])
            else:
                if s['calls'] >= 2 or (s['warm_calls'] and s['calls'] >= 1):
                    self.digests_nontrivial.add(s['digest'])
                self.c['ops'] += s['ops']
                self.c['calls'] += s['calls']
                for k, v in s['kinds'].items():
                    self.c['op:' + k] += v
                self.c['fault:interrupt_landed_inside_call'] += s['landed']
                self.c['fault:caller_mutation_applied_to_live_object'] += s['mut_applied']
                self.c['fault:call_raised_partway(uninjected)'] += s['raised']
                self.c['fault:argument_container_recycled_at_same_address'] += s.get('recycled', 0)
                self.c['fault:caller_refilled_a_container_it_had_passed_and_passed_it_again'] += s.get('refilled', 0)
                self.c['calls_reissued_with_equal_arguments_of_another_type'] += s.get('retyped', 0)
                self.c['localised_fillers(one neighbourhood, one resolution)'] += s.get('local_bulk', 0)
                self.c['capacity_filler_calls(unjudged)'] += s.get('bulk_calls', 0)
                self.c['fault:clock_jumps_injected'] += s.get('clock_jumps', 0)
                self.c['probe:clock_reads_by_library'] += s.get('clock_reads', 0)
                self.c['start:' + s['conf']['start']] += 1
                self.c['mix:' + s['conf']['mix']] += 1
                self.c['scenario:' + s['conf'].get('scenario', 'random')] += 1
                self.c['batch:fault_injecting' if s['conf']['faults'] else 'batch:fault_free'] += 1
                if s.get('state'):
                    self.states.add(s['state'])
                self.landed_locs.update(s['landed_locs'])
                pr = s.get('probes') or {}
                self.max_sph = max(self.max_sph, pr.get('sph_filled', 0))
                if pr.get('sph_reflected', 0) > 0:
                    self.c['probe:reflected_triangle_slot_filled'] += 1
                if pr.get('faces_touched', 0) >= 12:
                    self.c['probe:run_used_every_face'] += 1
                if pr.get('inv_cache', 0) > 0:
                    self.c['probe:inverse_constants_cache_nonempty'] += 1
        for s in samples:
            if len(self.samples) < 4:
                self.samples.append(s)

    def add_sweep(self, info):
        self.pairs.update(tuple(p) for p in info.pop('pairs'))
        self.c['sweep_points'] += info['points']
        for s in self.sweeps:
            if s['sweep'] == info['sweep']:
                s['points'] += info['points']
                s['cpu_s'] = round(s.get('cpu_s', 0) + info.get('cpu_s', 0), 1)
                return
        info.pop('part', None)
        self.sweeps.append(info)

    def distinct_nontrivial(self):
        return len(self.digests_nontrivial)

    def write(self, root, wall, violations, extra):
        from .runner import tree_id
        cov = {
            'evaluations': self.n + self.c.get('sweep_points', 0),
            'distinct_nontrivial': self.distinct_nontrivial(),
            'samples': self.samples or ['(no run completed)'],
            'simulated_runs': self.n,
            'runs_per_hour': int(self.n / wall * 3600) if wall > 0 else 0,
            'simulated_time_steps': self.steps,
            'steps_per_run': int(self.steps / self.n) if self.n else 0,
            'distinct_event_log_digests': len(self.digests),
            'counts': dict(sorted(self.c.items())),
            'public_functions_exercised': dict(sorted(self.funcs.items())),
            'components': 'all of a5 ran as real code imported from the working tree; nothing stubbed. '
                          'Simulator-owned: thread choice at every a5 line event, exception injection, caller behaviour between calls.',
            'tree': tree_id(root),
        }
        if self.prop == 'C16':
            cov['rule'] = ('runs are drawn from VERIF_SEED (swarm: threads 2-4, 1-3 calls each, locality, API mix, cache '
                           'temperature, plan rw/pct/one/rr, granularity); a run is non-trivial if at least one preemption '
                           'happened while >=2 threads were inside a5 public calls; distinct = distinct digest of '
                           '(normalised schedule segments, every call result, per-thread steps)')
            cov['distinct_preemption_pairs(line preempted at, function that ran in the gap)'] = len(self.pairs)
            cov['distinct_lines_preempted_at'] = len({p[0] for p in self.pairs})
            cov['context_bound_2_sweeps'] = [s for s in self.sweeps if not s.get('fpair') and s.get('kind') != 'conflict'][:50]
            cov['context_bound_2_sweeps_total'] = len(self.sweeps)
            cf = [s for s in self.sweeps if s.get('kind') == 'conflict']
            cov['conflict_directed_sweeps'] = {
                'rule': 'a pool of calls is run alone and cold, each followed by a generic walk over all state reachable from a5 module '
                        'globals; two calls that leave the same place (global, attribute, list slot, dict entry) changed are a candidate '
                        'pair and are swept exhaustively (different content preferred: they can overwrite each other). Selection only, never an oracle.',
                'pool': getattr(self, 'conflict_pool', None),
                'sweeps': [{'A': s['A'], 'B': s['B'], 'place': (s.get('conflict') or {}).get('place'),
                            'different_content': (s.get('conflict') or {}).get('different_content'), 'gran': s.get('gran'),
                            'points': s['points'], 'of': s['of'], 'exhaustive': s['exhaustive']} for s in cf][:40],
                'points': sum(s['points'] for s in cf),
            }
            mx = [s for s in self.sweeps if s.get('fpair')]
            cov['function_pair_matrix'] = {
                'rule': 'ordered pairs (A function, B function) of the 13 public functions swept at every line boundary of A '
                        '(every bytecode boundary when A is short) with B run to completion in the gap; B rotates with VERIF_SEED, '
                        'so 13 consecutive seeds of the quick tier, or one thorough run, cover all 169',
                'ordered_pairs_swept': len({tuple(s['fpair']) for s in mx if s['points']}), 'of': 169,
                'points': sum(s['points'] for s in mx),
                'sweeps': [{'A': s['A'], 'B': s['B'], 'gran': s.get('gran'), 'temp_locality': s.get('kind'), 'points': s['points'],
                            'of': s['of'], 'exhaustive': s['exhaustive']} for s in mx][:60],
            }
        else:
            cov['rule'] = ('histories of 3-25 (quick) / 3-60 (thorough) ops drawn from VERIF_SEED; even run indices are '
                           'fault-free (call/repeat/alias), odd ones inject faults (caller mutation of results and arguments, '
                           'calls that raise part-way, KeyboardInterrupt/MemoryError at an arbitrary a5 line event); non-trivial = '
                           'at least one call executed on a non-cold state (>=2 calls, or >=1 after a warm-up); distinct = distinct '
                           'digest of the full op/result log')
            cov['distinct_module_states_reached'] = len(self.states)
            cov['distinct_lines_an_interrupt_landed_on'] = len(self.landed_locs)
            cov['max_spherical_triangle_slots_filled_in_one_run'] = self.max_sph
        cov.update(extra)
        doc = {
            'property_id': self.prop, 'tier': self.tier, 'seed': self.seed, 'level': 'exploration',
            'coverage': cov,
            'assumptions': [
                'each CPython bytecode is atomic; thread switches are simulated at LINE (some runs: INSTRUCTION) events of code under a5/',
                'the reference value of a call is the same code run alone in a cold forked process (differential oracle: blind to errors that are identical in every execution)',
                'sampling, not proof: a clean batch is evidence',
            ],
            'wall_s': round(wall, 2),
            'violations': violations,
        }
        os.makedirs(os.path.join(VERIF, 'evidence'), exist_ok=True)
        path = os.path.join(VERIF, 'evidence', '%s.json' % self.prop)
        tmp = path + '.tmp'
        with open(tmp, 'w') as f:
            json.dump(doc, f, indent=1, default=str)
        os.replace(tmp, path)
        return path
