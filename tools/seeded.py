#!/venv/bin/python
"""Run the registered quick checks against every seeded change in /verif/seeded:
apply patch.diff to /repo, run the check of the property it breaks, undo the
patch straight afterwards.  Updates seeded/<id>/meta.json ("last_run")."""
import os, sys, json, time, subprocess

VERIF = os.path.dirname(os.path.dirname(os.path.abspath(__file__)))
only = set(sys.argv[1:])
tier = os.environ.get('SEEDED_TIER', 'quick')

def sh(*a, **k):
    return subprocess.run(a, capture_output=True, text=True, **k)

assert sh('git', '-C', '/repo', 'status', '--porcelain', '--untracked-files=no').stdout.strip() == '', '/repo not clean'
rows = []
for sid in sorted(os.listdir(os.path.join(VERIF, 'seeded'))):
    d = os.path.join(VERIF, 'seeded', sid)
    if not os.path.isdir(d) or (only and sid not in only):
        continue
    meta_p = os.path.join(d, 'meta.json')
    meta = json.load(open(meta_p)) if os.path.exists(meta_p) else {}
    control = sid.endswith('-control')
    props = ['C16', 'C17'] if control else [meta.get('property') or ('C16' if sid.startswith('c16') else 'C17')]
    prop = props[0]
    copy_mode = os.environ.get('SEEDED_MODE') == 'copy'
    if copy_mode:
        # scratch copy outside /repo and /verif (removed afterwards); /repo is not touched
        import tempfile, shutil
        tmp = tempfile.mkdtemp(prefix='a5seed-')
        shutil.copytree('/repo/a5', os.path.join(tmp, 'a5'), ignore=shutil.ignore_patterns('__pycache__'))
        r = sh('git', 'apply', '--include=a5/*', os.path.join(d, 'patch.diff'), cwd=tmp)     # (only the library is copied)
        root = tmp
    else:
        r = sh('git', '-C', '/repo', 'apply', os.path.join(d, 'patch.diff'))
        root = '/repo'
    if r.returncode != 0:
        rows.append((sid, prop, 'patch does not apply', 0))
        print(sid, 'patch does not apply', r.stderr[:200])
        continue
    try:
        t0 = time.time()
        env = dict(os.environ, A5SIM_REPLAY_DIR='/tmp/seeded-replays')
        p = None
        for prop in props:
            q = sh('/venv/bin/python', os.path.join(VERIF, 'check'), prop, '--tier', tier, '--no-evidence', '--a5-root', root, env=env, timeout=7200)
            if p is None or q.returncode != 0:
                p = q
            if q.returncode != 0:
                break
        dt = time.time() - t0
    finally:
        if copy_mode:
            shutil.rmtree(tmp, ignore_errors=True)
        else:
            sh('git', '-C', '/repo', 'checkout', '--', '.')
    lines = [l for l in p.stdout.splitlines() if l.startswith(('run ', 'minimised', 'VIOLATION', 'HARNESS', prop + ' held'))]
    if control:
        res = 'silent' if p.returncode == 0 else ('FALSE-ALARM' if p.returncode == 1 else 'harness-error')
    else:
        res = 'detected' if (p.returncode == 1 and any(l.startswith('VIOLATION property=%s' % prop) for l in lines)) else \
              ('MISSED' if p.returncode == 0 else 'harness-error')
    meta.setdefault('runs', {})['VERIF_SEED=%s' % os.environ.get('VERIF_SEED', '0')] = {'result': res, 'seconds': round(dt, 1)}
    meta['last_run'] = {'tier': tier, 'VERIF_SEED': os.environ.get('VERIF_SEED', '0'), 'result': res, 'seconds': round(dt, 1), 'output': lines[:4]}
    json.dump(meta, open(meta_p, 'w'), indent=1)
    rows.append((sid, prop, res, dt))
    print('%-8s %-4s %-14s %6.0fs  %s' % (sid, prop, res, dt, (lines[0][:150] if lines else '')), flush=True)
assert sh('git', '-C', '/repo', 'status', '--porcelain', '--untracked-files=no').stdout.strip() == '', '/repo not clean afterwards'
sys.exit(0 if all(r[2] in ('detected', 'silent') for r in rows) else 1)
