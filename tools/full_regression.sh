#!/bin/bash
# Everything that is not a registered check: selftest mutants and controls, all seeded changes (scratch copies), under VERIF_SEED 0 and 1.
cd "$(dirname "$0")/.."
echo "== selftest"; timeout 7000 /venv/bin/python check selftest 2>&1 </dev/null | cut -c1-260
for s in 0 1; do echo "== seeded VERIF_SEED=$s"; VERIF_SEED=$s SEEDED_MODE=copy timeout 14000 tools/seeded.py 2>&1 </dev/null | cut -c1-260; done
