#!/bin/bash
# Detection matrix: every seeded change (scratch copies) under several VERIF_SEED values.
cd "$(dirname "$0")/.."
for s in "$@"; do echo "== seeded VERIF_SEED=$s"; VERIF_SEED=$s SEEDED_MODE=copy timeout 14000 tools/seeded.py 2>&1 </dev/null | cut -c1-200; done
