#!/bin/bash
# Final pass on the committed code: selftest, seeded changes and controls (scratch copies), then a soak.
# usage: tools/final_regression.sh "<seeds for the matrix>" <first soak seed> <last soak seed>
cd "$(dirname "$0")/.."
echo "== selftest"; timeout 7000 /venv/bin/python check selftest 2>&1 </dev/null | cut -c1-200
tools/seeded_matrix.sh ${1:-0 1}
echo "== soak"; tools/soak.sh ${2:-60} ${3:-69}
