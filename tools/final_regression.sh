#!/bin/bash
# Final pass on the committed code: selftest, seeded changes and controls (scratch copies, VERIF_SEED 0 and 1), then a soak.
cd "$(dirname "$0")/.."
echo "== selftest"; timeout 7000 /venv/bin/python check selftest 2>&1 </dev/null | cut -c1-200
tools/seeded_matrix.sh 0 1
echo "== soak"; tools/soak.sh 60 69
