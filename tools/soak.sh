#!/bin/bash
# Soak: quick tiers of both checks on the unchanged tree under many VERIF_SEED values (no evidence written).
# usage: tools/soak.sh <first-seed> <last-seed>
cd "$(dirname "$0")/.."
for s in $(seq $1 $2); do
  for p in C16 C17; do
    start=$(date +%s)
    out=$(VERIF_SEED=$s timeout 3000 /venv/bin/python check $p --tier quick --no-evidence 2>&1 </dev/null | grep -E "held on|VIOLATION|HARNESS|^run " | tr '\n' ' ')
    echo "seed $s $p $(( $(date +%s) - start ))s: $out"
  done
done
