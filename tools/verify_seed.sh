#!/bin/bash
# usage: tools_verify_seed.sh <worktree> <prop> <seed-id>
# Confirms a sub-agent's seeded change (tests pass, demo fails with / passes without) and runs the check against it.
set -u
WT=$1; PROP=$2; ID=$3
cd "$WT" || exit 9
echo "== patch matches working tree: $(git diff -- a5 | diff -q - patch.diff >/dev/null && echo yes || echo NO)"
echo "== pytest with change"; PYTHONPATH=$WT timeout 900 /venv/bin/python -m pytest -q -p no:cacheprovider 2>&1 | tail -1
echo "== demo with change"; PYTHONPATH=$WT timeout 900 /venv/bin/python demo.py > /tmp/demo_with.out 2>&1; echo "exit $?"; tail -3 /tmp/demo_with.out | cut -c1-300
git stash -q -- a5
echo "== demo without change"; PYTHONPATH=$WT timeout 900 /venv/bin/python demo.py > /tmp/demo_without.out 2>&1; echo "exit $?"; tail -2 /tmp/demo_without.out | cut -c1-300
git stash pop -q
echo "== check $PROP against it"
cd /verif
start=$(date +%s)
A5SIM_REPLAY_DIR=/tmp/seed-replays timeout 1500 /venv/bin/python /verif/check $PROP --a5-root $WT --no-evidence 2>&1 | tail -4 | cut -c1-400
echo "check exit ${PIPESTATUS[0]} in $(( $(date +%s) - start ))s"
