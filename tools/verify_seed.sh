#!/bin/bash
# usage: tools/verify_seed.sh <worktree> <prop> <seed-id>
# Confirms a sub-agent's seeded change (tests pass, demo fails with / passes without) and runs the check against it.
# (no `git stash`: refs/stash is shared by all worktrees of a repository)
set -u
VERIF=$(dirname "$(dirname "$(realpath "$0")")")
WT=$1; PROP=$2; ID=$3
cd "$WT" || exit 9
git diff -- a5 > patch.diff
echo "== files: $(git status --short | tr '\n' ' ')"
echo "== pytest with change"; PYTHONPATH=$WT timeout 900 /venv/bin/python -m pytest -q -p no:cacheprovider 2>&1 | tail -1
echo "== demo with change"; PYTHONPATH=$WT timeout 900 /venv/bin/python demo.py > /tmp/demo_with_$ID.out 2>&1; echo "exit $?"; tail -3 /tmp/demo_with_$ID.out | cut -c1-300
git apply -R patch.diff || exit 8
echo "== demo without change"; PYTHONPATH=$WT timeout 900 /venv/bin/python demo.py > /tmp/demo_without_$ID.out 2>&1; echo "exit $?"; tail -2 /tmp/demo_without_$ID.out | cut -c1-300
git apply patch.diff || exit 8
echo "== check $PROP against it"
cd "$VERIF"
start=$(date +%s)
A5SIM_REPLAY_DIR=/tmp/seed-replays timeout 1500 /venv/bin/python "$VERIF/check" $PROP --a5-root $WT --no-evidence 2>&1 | tail -4 | cut -c1-400
echo "check exit ${PIPESTATUS[0]} in $(( $(date +%s) - start ))s"
